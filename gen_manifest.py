#!/usr/bin/env python3
"""Regenerates MANIFEST.json from the table below (kept in one place so it stays valid)."""
import json, subprocess
props = {}
for l in open('/verif/properties.jsonl'):
    p = json.loads(l); props[p['id']] = p

CHECKS = {
 # id: (engine, category, text, note, technique, design_ref)
 "C03": ("docspace", "model_checking",
   "bounded exhaustive exploration of the real parser/builder/server: every document of a stated finite space (token strings, block-grammar forests with style variants, inline sequences, scale families) is driven through every entry point the property names, panics/aborts/hangs observed per case in isolated worker processes",
   "trusted: pulldown-cmark as input-feature parser, std; bound: see evidence.coverage.bound; arithmetic as in release builds",
   "explicit-state enumeration of the input space against the implementation (stateless search, sharded subprocess workers)", "§5 C03"),
}
CHECKS["C01"] = ("docspace", "model_checking",
   "bounded exhaustive exploration: every document of the stated finite space is formatted by the real code through three routes and both refs_extension settings, and an independent content extractor (folded over pulldown-cmark's event stream) must give the same content tree for input and output",
   "trusted: pulldown-cmark (reference parser), the R1 extractor's stated equivalences; open defects are attributed by input-side trigger only (known_findings.json)",
   "explicit-state enumeration of the input space against the implementation with a reference-model oracle", "§5 C01")
CHECKS["C02"] = ("docspace", "model_checking",
   "bounded exhaustive exploration: for every document of the space and every ordered pair of the four formatting routes, formatting the formatted text again must return it byte-for-byte",
   "no reference model needed (the implementation is compared with itself); bound: see evidence",
   "explicit-state enumeration of the input space, idempotence oracle over all route pairs", "§5 C02")
CHECKS["C04"] = ("histspace", "model_checking",
   "bounded exhaustive exploration of edit histories on the real Database and the real Server: all operation sequences up to the stated depth over a key x text alphabet built from the anchored mechanisms, from three initial libraries; after each history the canonical dump of every observable answer is compared with a from-scratch build of the current texts (differential oracle, no expected values written by hand)",
   "stateless search (no state merging, because the concrete state hides stale index entries by design); node ids never compared",
   "explicit-state exploration of operation sequences on the implementation, differential oracle against a fresh build", "§5 C04")
CHECKS["C20"] = ("histspace", "model_checking",
   "the same bounded exhaustive history exploration as C04, with an independent arena-invariant walker evaluated on every reached state and on the patch graphs (collect / squash previews) built from it",
   "the walker uses only the public read API of Graph; bound: see evidence",
   "explicit-state exploration of operation sequences on the implementation, invariant checked in every state", "§5 C20")
CHECKS["C11"] = ("sched", "model_checking",
   "stateless model checking of the real message loop and the real per-request worker threads under a controlled scheduler: for every client script up to the bound, all interleavings of loop steps and worker steps (start / computing-with-read-access / computed / responded / exit) and of client sends that pile up in the inbox behind a loop that waits for write access are executed on the real main_loop, one actor at a time, with prefix replay; each execution is checked against fresh-server answers (linearisation: a request is answered from a state at or after the notifications that precede it; final state = last text sent; one response per request; a released worker that makes no progress is a deadlock)",
   "scheduling points are the verif-hooks events plus thread join; worker-worker steps are treated as commuting (handlers only read the server); rayon inside handlers is not scheduled",
   "stateless model checking (DFS over schedules with prefix replay and a sleep-set style partial-order reduction) of the implementation under a hook-driven cooperative scheduler", "§5 C11")
CHECKS["C12"] = ("reqs", "model_checking",
   "bounded exhaustive exploration of request sequences against the real main_loop: every message of a parameter alphabet (all handled methods, unknown methods, malformed params; URIs inside/outside the library; positions incl. out of range; rename names; code-action kinds and resolve data incl. stale ids) singly and in all ordered pairs (thorough: full pairs and triples with an edit in between); after each request the worker thread is joined and exactly one response with its id must exist, a liveness probe must answer like a fresh server, shutdown/exit must end the loop with Ok",
   "no-response is decided by thread join (JoinHandle from the hooks) or, for a request the loop serves without a worker, by the loop's own handled event; only a loop that reports nothing at all for 5 s is given up on (and then fails the case); parameters are from the stated alphabet only",
   "explicit-state enumeration of operation sequences (depth <= 2..3) on the implementation", "§5 C12")
CHECKS["C05"] = ("libspace", "model_checking",
   "bounded exhaustive exploration of libraries: every library derivable from a link-placement x link-kind x url-form alphabet (4 notes in root and a sub-directory, one or two link blocks, several styles of the other notes) is imported by the real code; for every note and every missing name the backlink set reported by the graph API, textDocument/references and the inlay-hint counters must equal the set computed by an independent link scanner and path resolver",
   "trusted: pulldown-cmark offset iterator + own resolver; order of locations not compared",
   "explicit-state enumeration of the configuration space against the implementation with a reference-model oracle", "§5 C05")
CHECKS["C06"] = ("libspace", "model_checking",
   "the same library space as C05 under both refs_extension settings, formatted by import/export and by the LSP formatting request; input and output links are matched by ordinal with the independent scanner: kind and resolved destination must be unchanged and the text must follow the title-refresh rule for the note the link really resolves to",
   "trusted: as C05; titles that contain links may be compared against their old or new plain text",
   "explicit-state enumeration of the configuration space against the implementation with a reference-model oracle", "§5 C06")
CHECKS["C13"] = ("positions", "model_checking",
   "bounded exhaustive exploration: every document of a (preceding lines x preceding text on the line x link form x host block x line ending) alphabet, and in each every (line, UTF-16 character) position plus two lines past the end, is queried on the real server (definition, prepareRename, rename; symbols; code actions per line); answers are compared with link spans and block lines computed from pulldown-cmark's offset iterator and an own byte-offset -> UTF-16 position mapper",
   "position == end of the link span is a don't-care; the prepareRename range must be a well-formed range inside the link span whose two ends fall between characters of their line in UTF-16 units (exact destination columns are not demanded by the statement); three of the eleven link forms have a destination with a character outside the BMP",
   "explicit-state enumeration of inputs x positions against the implementation with a reference-model oracle", "§5 C13")
CHECKS["C15"] = ("paths", "model_checking",
   "bounded exhaustive exploration of the whole space of path shapes up to a depth: every (note key, linking directory) pair over two segment names and every decorated url over {a, b, ., ..} with .md / ./ forms is run through the real Key API, import/export, completion and extract; round-trip laws (no expected literals) are checked against an own path resolver",
   "urls that climb above the root or name a directory are a don't-care; inline links are C05/C06's subject",
   "explicit-state enumeration of the input space against the implementation, algebraic round-trip laws with a reference resolver", "§5 C15")
CHECKS["C14"] = ("names", "model_checking",
   "bounded exhaustive exploration of on-disk libraries: every subset (up to the bound) of a file-name alphabet (spaces, non-ASCII, %, dots, .md.md, nested directories, #) under every base-path form (plain, with a space, trailing slash) is written to a scratch directory and loaded by the real disk loader and Server; the file, its file:// URI (built by Url::from_file_path) and links to it must address one and the same note: formatting, references, go-to-definition, didChange (no second note), and every URI in responses maps back to an existing file",
   "note identity is observed through titles; the Server is driven directly with the state produced by liwe::fs::new_for_path (the state: None branch of main_loop)",
   "explicit-state enumeration of the configuration space against the implementation", "§5 C14")
CHECKS["C08"] = ("libspace", "model_checking",
   "bounded exhaustive exploration: every library of the libspace alphabet x the first link of the owner note as rename site x every new name (free, taken, in a sub-directory, from root and from a sub-directory) is answered by the real rename handler; the WorkspaceEdit is applied to a copy of the library by an independent applier and the result is re-scanned with the independent link scanner / resolver (old key gone, new note with equal content, every link to the old key follows, every other link resolves as before, unrelated notes byte-identical, taken name refused)",
   "the new name is accepted as library-relative or relative to the issuing note's directory; only what links resolve to is compared for rewritten notes, not their formatting",
   "explicit-state enumeration of configurations x operations against the implementation with a reference-model oracle", "§5 C08")
CHECKS["C09"] = ("actions", "model_checking",
   "bounded exhaustive exploration: every block forest up to the bound (sections, code, tables, block references to existing / missing / the same / another-directory notes, lists, quotes) as a root note and as a note in a sub-directory (and references from both to notes with a link in every kind of place: heading, item, quote, table header and body cell) x every line x every offered extract / inline action is resolved by the real Server; the edit is applied by an independent applier and the library before/after is compared through the independent content extractor and link resolver (fresh keys, top-level headings, exactly +1 / -1 reference, nothing else lost or duplicated, links resolve to the same notes from their new place, extract-then-inline restores the formatted original)",
   "content leaves via R1 (levels / markers / position are presentation); production key generation (random keys)",
   "explicit-state enumeration of inputs x cursor lines x operations against the implementation with a reference-model oracle", "§5 C09")
CHECKS["C10"] = ("actions", "model_checking",
   "bounded exhaustive exploration: every block forest up to the bound x every line x every offered section-to-list / list-to-sections / change-list-type action on the real Server; the sequence of content leaves must be unchanged, only the note itself may be rewritten, and the inverse action applied to the result must give the formatted original byte-for-byte (where the statement promises it)",
   "content leaves via R1 in document order with headings and item texts identified",
   "explicit-state enumeration of inputs x cursor lines x operation pairs against the implementation", "§5 C10")
CHECKS["C17"] = ("squash", "model_checking",
   "bounded exhaustive exploration of block-reference graphs: every library of 1-3 (thorough: 4, all 2^16 edge sets) notes over a block alphabet with references to every note incl. itself and a missing one, in every position, x every depth 0..4 (thorough 0..6), plus chains, self-loops and a 3-cycle at depths up to 255, is squashed by the real code through both routes (CLI rebuild + export, generate); the result is compared with an independent recursive expander over the R1 trees of the source texts (multiset of blocks, order of own blocks, one expansion per reference, dangling / depth-0 references kept); deep and wide cases run in subprocesses with a horizon",
   "position of an expansion among its siblings, heading levels and link texts are don't-cares",
   "explicit-state enumeration of the input space against the implementation with a reference-model oracle", "§5 C17")
CHECKS["C18"] = ("symbols", "model_checking",
   "bounded exhaustive exploration of libraries of 1-2 (thorough: 3) notes over a block alphabet (headings of two levels, duplicate and empty titles, headings in lists and quotes, references to every note incl. itself and a missing one) plus 100+-heading libraries; Graph::paths, Database::global_search for every query, workspace/symbol and documentSymbol of the real code are checked against an independent outline / inclusion model: soundness of every path step, completeness for every heading outside lists and quotes, names, lines, the 100-entry cap and the documented order recomputed with the same third-party scorer",
   "order ties, the first path element and documentSymbol indentation are don't-cares",
   "explicit-state enumeration of the input space against the implementation with a reference-model oracle", "§5 C18")
CHECKS["C16"] = ("order", "model_checking",
   "bounded exhaustive exploration of the configuration dimensions the property names, on libraries built to contain ties: every permutation of insert order (from empty and after every preloaded subset), every rayon pool size 1..16 (pool size asserted inside the pool), every file creation order on disk, and hash-map iteration orders by coverage closure (builds are repeated with fresh RandomState until every permutation of the input map's and of Graph::keys() order has been observed; closure is reported); the canonical dump (formatted files, titles, backlink SETS, outline paths, ORDERED search results) must equal the single-threaded reference",
   "rayon's work-stealing order inside a pool cannot be controlled with anything installed: pool sizes are enumerated, steal orders are only re-sampled (labelled as such in the evidence); the order of `references` locations is not compared because the statement speaks of backlink sets",
   "explicit-state enumeration of configurations (permutations, pool sizes, hash orders by closure) against the implementation, differential oracle", "§5 C16")
CHECKS["C07"] = ("docspace", "model_checking",
   "bounded exhaustive exploration: all heading-level sequences over levels 1-6 up to the bound (ATX, setext, with and without bodies), the block-grammar forests with nested / mixed lists, multi-block items and quotes, and ordered lists around the 9/10 and 99/100 padding thresholds are formatted by the real code; an independent outline extractor must give the same structure (heading order and text, container path and nearest preceding heading of every block, list kinds and item counts) and the output's document-level heading levels must be well-nested and unchanged when the input's were",
   "heading levels inside quotes / items are not compared; link texts inside headings may be refreshed",
   "explicit-state enumeration of the input space against the implementation with a reference-model oracle", "§5 C07")
CHECKS["C19"] = ("fsfault", "fault_enumeration",
   "exhaustive fault enumeration on the real `iwe` binary (built from /repo's working tree): for every directory tree over a file-name / content alphabet (nested directories, names with spaces and non-ASCII, non-note files, x.md.md, config files) a fault-free traced run yields the list of file-affecting syscalls; then every index k of every syscall kind x {ENOSPC (thorough: EDQUOT), SIGKILL at syscall entry} is injected with strace, and every byte limit L in 0..=max note length is imposed with RLIMIT_FSIZE (SIGXFSZ default and ignored) - a genuinely torn write at every offset. Fault-free: every note equals the in-memory export, written where it was read, nothing else created / deleted / touched (mtime). Faulted: every note file holds its complete old or its complete new text",
   "crash model = syscall boundary + byte-granular torn writes, not power loss; write order follows HashMap iteration, so (file, phase) coverage is read from the traces and runs repeat until covered (coverage in the evidence counters)",
   "exhaustive fault-point enumeration (strace error/signal injection at every syscall index, RLIMIT_FSIZE at every byte offset) against the implementation", "§5 C19")
NOT_APPLICABLE = {}
manifest = {
 "version": 1,
 "setup_cmd": "cd /verif/mc && CARGO_NET_OFFLINE=true CARGO_TARGET_DIR=/verif/target cargo build --release --offline && CARGO_NET_OFFLINE=true CARGO_TARGET_DIR=/verif/target/iwe-bin cargo build --release --offline --locked --manifest-path /repo/Cargo.toml -p iwe",
 "hooks": {
   "guard": "cargo feature `verif-hooks` of crate iwes",
   "enable": "the harness crate /verif/mc depends on /repo/crates/iwes by path with features=[\"verif-hooks\"]; every check command rebuilds it from /repo's working tree",
   "baseline_off_cmd": "cd /repo && cargo test --workspace --no-fail-fast --offline",
   "source_commits": subprocess.run("git -C /repo log --format=%h --grep=verif-hooks", shell=True, capture_output=True, text=True).stdout.split(),
   "add_only": True,
 },
 "engines": [
   {"name": "histspace", "path": "/verif/mc/src/engines/hist.rs", "serves_properties": ["C04","C20"], "kind_free_text": "enumerates all update/insert histories up to a depth and runs them on the real Database / Server"},
   {"name": "sched", "path": "/verif/mc/src/engines/sched.rs", "serves_properties": ["C11"], "kind_free_text": "hook-driven cooperative scheduler exploring all interleavings of the real LSP message loop and request workers"},
   {"name": "reqs", "path": "/verif/mc/src/engines/reqs.rs", "serves_properties": ["C12"], "kind_free_text": "drives every request of a parameter alphabet, singly and in sequences, through the real main_loop over an in-memory connection"},
   {"name": "libspace", "path": "/verif/mc/src/libspace.rs + engines/links.rs", "serves_properties": ["C05","C06","C08"], "kind_free_text": "enumerates small libraries from a link-placement x kind x url-form alphabet and compares the real answers with an independent link scanner/resolver"},
   {"name": "positions", "path": "/verif/mc/src/engines/positions.rs", "serves_properties": ["C13"], "kind_free_text": "sweeps every cursor position of documents with CRLF / non-ASCII prefixes through the real position-based handlers"},
   {"name": "paths", "path": "/verif/mc/src/engines/paths.rs", "serves_properties": ["C15"], "kind_free_text": "round-trip laws of relative link arithmetic over all path shapes up to a depth"},
   {"name": "names", "path": "/verif/mc/src/engines/names.rs", "serves_properties": ["C14"], "kind_free_text": "writes libraries with awkward file names / base paths to disk and drives the real loader + server through file URIs"},
   {"name": "actions", "path": "/verif/mc/src/engines/actions.rs", "serves_properties": ["C09","C10"], "kind_free_text": "sweeps every line of every block-grammar note through codeAction + resolve on the real server and applies the edits to a copy of the library"},
   {"name": "squash", "path": "/verif/mc/src/engines/squash.rs", "serves_properties": ["C17"], "kind_free_text": "enumerates block-reference graphs x depths and compares the real squash with an independent recursive expander"},
   {"name": "symbols", "path": "/verif/mc/src/engines/symbols.rs", "serves_properties": ["C18"], "kind_free_text": "enumerates small libraries and checks outline paths / search / symbols against an independent outline + inclusion model"},
   {"name": "order", "path": "/verif/mc/src/engines/order.rs", "serves_properties": ["C16"], "kind_free_text": "enumerates insert permutations, rayon pool sizes, file creation orders and hash iteration orders (by closure) and compares canonical dumps"},
   {"name": "fsfault", "path": "/verif/mc/src/engines/fsfault.rs", "serves_properties": ["C19"], "kind_free_text": "runs the real iwe binary on generated directory trees under strace fault injection at every syscall index and RLIMIT_FSIZE at every byte offset"},
   {"name": "docspace", "path": "/verif/mc/src/engines/docs.rs", "serves_properties": ["C01","C02","C03","C07"], "kind_free_text": "enumerates documents from a token alphabet / block grammar / inline grammar and runs the real formatter and server on each"},
 ],
 "checks": [],
 "not_applicable": [],
 "notes": "All checks: ./check <ID> quick|thorough. Exit 0 = held on everything explored (KNOWN-FINDING lines for committed open findings), 1 = VIOLATION lines with replay files, 2 = machinery error. known_findings.json is never written at run time.",
}
for pid in sorted(props):
    if pid in CHECKS:
        eng, cat, text, note, tech, ref = CHECKS[pid]
        manifest["checks"].append({
          "property_id": pid,
          "quick_cmd": f"./check {pid} quick",
          "thorough_cmd": f"./check {pid} thorough",
          "evidence_file": f"/verif/evidence/{pid}.json",
          "replay_cmd_template": f"./check {pid} --replay {{path}}",
          "engine": eng,
          "level_claimed": {"category": cat, "text": text, "design_ref": ref},
          "level_note": note,
          "technique": tech,
        })
    else:
        manifest["not_applicable"].append({"property_id": pid, "reason": NOT_APPLICABLE.get(pid, "check not built yet (work in progress); the design in DESIGN.md §5 applies")})
json.dump(manifest, open('/verif/MANIFEST.json','w'), indent=1)
print("checks", len(manifest["checks"]), "n/a", len(manifest["not_applicable"]))
