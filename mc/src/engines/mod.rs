use crate::core::{Ctx, Engine, Tier};
use std::collections::{BTreeMap, HashSet};

pub mod actions;
pub mod docs;
pub mod fsfault;
pub mod hist;
pub mod links;
pub mod names;
pub mod order;
pub mod paths;
pub mod positions;
pub mod rename;
pub mod sched;
pub mod squash;
pub mod symbols;
pub mod reqs;

pub fn get(id: &str) -> Option<Box<dyn Engine>> {
    match id {
        "C01" => Some(Box::new(docs::C01)),
        "C02" => Some(Box::new(docs::C02)),
        "C03" => Some(Box::new(docs::C03)),
        "C07" => Some(Box::new(docs::C07)),
        "C12" => Some(Box::new(reqs::C12)),
        "C11" => Some(Box::new(sched::C11)),
        "C14" => Some(Box::new(names::C14)),
        "C16" => Some(Box::new(order::C16)),
        "C17" => Some(Box::new(squash::C17)),
        "C18" => Some(Box::new(symbols::C18)),
        "C15" => Some(Box::new(paths::C15)),
        "C09" => Some(Box::new(actions::C09)),
        "C10" => Some(Box::new(actions::C10)),
        "C08" => Some(Box::new(rename::C08)),
        "C13" => Some(Box::new(positions::C13)),
        "C05" => Some(Box::new(links::C05)),
        "C06" => Some(Box::new(links::C06)),
        "C04" => Some(Box::new(hist::C04)),
        "C19" => Some(Box::new(fsfault::C19)),
        "C20" => Some(Box::new(hist::C20)),
        _ => None,
    }
}

/// development aid: run the whole tier in-process (parallel) and group failures.
/// mode "site": group by clause+site and print the features common to all cases of the group.
pub fn classes(e: &dyn Engine, tier: Tier, filter: Option<&str>) {
    use rayon::prelude::*;
    let by_site = std::env::var("BY_SITE").is_ok();
    let ctx = Ctx { active: std::env::var("ACTIVE").ok().map(|s| s.split(',').map(|x| x.to_string()).collect()).unwrap_or_default(), tier };
    let mut cases: Vec<String> = vec![];
    let mut seen = HashSet::new();
    e.enumerate(tier, &mut |case| {
        if seen.insert(crate::core::fx(case)) {
            cases.push(case.to_string());
        }
    });
    println!("cases {}", cases.len());
    // own pool: iwe uses rayon's global pool internally, and engine code may block on threads that do
    let pool = rayon::ThreadPoolBuilder::new().num_threads(16).build().unwrap();
    let results: Vec<(String, Vec<crate::core::Failure>)> = pool.install(|| {
        cases
            .par_iter()
            .map(|c| (c.clone(), e.run(c, &ctx).failures))
            .filter(|(_, f)| !f.is_empty())
            .collect()
    });
    println!("failing cases {}", results.len());
    let mut groups: BTreeMap<String, (u64, String, String, Option<Vec<String>>)> = BTreeMap::new();
    for (case, fs) in results {
        for f in fs {
            let key = if by_site { format!("{} @ {}", f.clause, f.site) } else { format!("{} @ {} :: {}", f.clause, f.site, f.features.join(",")) };
            if let Some(flt) = filter {
                if !key.contains(flt) && !f.features.iter().any(|x| x == flt) {
                    continue;
                }
            }
            let g = groups.entry(key).or_insert((0, case.clone(), f.detail.clone(), None));
            g.0 += 1;
            if case.len() < g.1.len() {
                g.1 = case.clone();
                g.2 = f.detail.clone();
            }
            g.3 = Some(match g.3.take() {
                None => f.features.clone(),
                Some(common) => common.into_iter().filter(|x| f.features.contains(x)).collect(),
            });
        }
    }
    let mut v: Vec<_> = groups.into_iter().collect();
    v.sort_by_key(|(_, (c, _, _, _))| std::cmp::Reverse(*c));
    for (k, (c, ex, d, common)) in v {
        println!("x{:<7} {}\n         common: {:?}\n         e.g. {:?}\n         {}", c, k, common.unwrap_or_default(), ex, crate::core::trunc(&d, 500));
    }
}
