//! histspace engines: C04 (incremental == fresh build) and C20 (arena stays a well-formed forest).
//!
//! A case is one operation history; it is executed from the initial library on the real
//! `Database` (and, for C04, additionally through a real `Server` with didChange/didSave), and the
//! oracle is evaluated on the state after the last operation (every prefix is its own case).

use crate::core::*;
use crate::drive::*;
use liwe::database::Database;
use liwe::graph::graph_node::GraphNode;
use liwe::graph::{Graph, GraphContext};
use liwe::model::node::{NodeIter, NodePointer};
use liwe::model::Key;
use lsp_types::*;
use serde_json::json;
use std::collections::{BTreeMap, BTreeSet, HashMap, HashSet};

pub const TEXTS: &[(&str, &str)] = &[
    ("titled", "# T\n\npara\n"),
    ("retitled", "# T2\n\npara\n"),
    ("untitled", "just text\n"),
    ("blockref1", "# B\n\n[x](1)\n"),
    ("blockref2", "# B\n\n[x](2)\n"),
    ("inlineref1", "see [x](1) here\n"),
    ("table-then-refs", "# H\n\n| a |\n|---|\n| b |\n\n[x](1)\n\nand [y](2)\n"),
    ("list-nested-ref", "# L\n\n- item [z](2)\n  - [x](1)\n"),
    ("two-sections", "# S\n\n## S1\n\n[x](2)\n\n## S2\n\ntext\n"),
    ("empty", ""),
    // quotes: blocks inside a quote hang off the quote node; an empty quote that ends a section
    ("quote-with-heading", "# Q\n\n> # inner\n>\n> [x](1)\n>\n> text [y](2)\n"),
    ("empty-quote-ends-section", "# E\n\n## Sub\n\npara\n\n>\n\n## Sub 2\n\n[x](1)\n"),
    // front-matter that a later version of the note no longer has
    ("front-matter", "---\nk: v\n---\n\n# F\n\ntext\n"),
    // one link after a block of every kind (each arm of the index walk has a successor that matters)
    (
        "every-kind-then-ref",
        "# A\n\npara\n\n---\n\n[x](1)\n\n> quote\n\n[y](2)\n\n- item\n\n[x](1)\n\n1. one\n\nand [y](2) inline\n\n```\ncode\n```\n\n[x](1)\n\n## sub\n\n[y](2)\n",
    ),
];

pub const KEYS: &[&str] = &["1", "2", "d/3", "n"];

pub fn init_lib(i: usize) -> HashMap<String, String> {
    match i {
        0 => lib_of(&[("1", "# one\n\n[two](2)\n"), ("2", "# two\n")]),
        1 => lib_of(&[("1", "# one\n\ntext [two](2) and [three](d/3)\n"), ("2", "# two\n\n[one](1)\n"), ("d/3", "# three\n\n[one](../1)\n\n| c |\n|---|\n| d |\n\n[two](../2)\n")]),
        _ => lib_of(&[("1", "plain\n")]),
    }
}

fn enumerate_histories(max_depth_lib0: usize, max_depth_other: usize, emit: &mut dyn FnMut(&str)) {
    let nops = TEXTS.len() * KEYS.len();
    for lib in 0..3 {
        let maxd = if lib == 0 { max_depth_lib0 } else { max_depth_other };
        for depth in 1..=maxd {
            let total = nops.pow(depth as u32);
            for code in 0..total {
                let mut c = code;
                let mut ops = vec![0usize; depth];
                for k in (0..depth).rev() {
                    ops[k] = c % nops;
                    c /= nops;
                }
                let s: Vec<String> = ops.iter().map(|o| format!("{}<{}", KEYS[o / TEXTS.len()], TEXTS[o % TEXTS.len()].0)).collect();
                emit(&format!("{}|{}", lib, s.join(",")));
            }
        }
    }
}

pub fn parse_history(case: &str) -> (usize, Vec<(String, String, String)>) {
    let (lib, rest) = case.split_once('|').expect("history case");
    let ops = rest
        .split(',')
        .filter(|s| !s.is_empty())
        .map(|s| {
            let (k, t) = s.split_once('<').expect("op");
            let text = TEXTS.iter().find(|(n, _)| *n == t).map(|(_, x)| x.to_string()).unwrap_or_else(|| t.replace("\\n", "\n"));
            (k.to_string(), t.to_string(), text)
        })
        .collect();
    (lib.parse().unwrap(), ops)
}

fn history_features(ops: &[(String, String, String)], init: &HashMap<String, String>) -> Vec<String> {
    let mut f: Vec<String> = vec![];
    let mut cur = init.clone();
    let mut ever_block_referenced: BTreeSet<String> = BTreeSet::new();
    let refs_of = |lib: &HashMap<String, String>| -> BTreeSet<String> {
        let mut s = BTreeSet::new();
        for (k, t) in lib {
            for l in crate::oracle::scan_links(t) {
                if l.alone_in_para {
                    if let Some(r) = crate::oracle::resolve(&crate::oracle::dir_of(k), &l.dest) {
                        s.insert(r);
                    }
                }
            }
        }
        s
    };
    ever_block_referenced.extend(refs_of(&cur));
    for (k, name, text) in ops {
        let had_heading = cur.get(k).map(|t| t.trim_start().starts_with('#')).unwrap_or(false);
        if had_heading && !text.trim_start().starts_with('#') {
            f.push("heading-removed".into());
        }
        if !cur.contains_key(k) {
            f.push("new-key".into());
        }
        if name == "table-then-refs" {
            f.push("update-with-block-after-table".into());
        }
        if name == "front-matter" {
            f.push("front-matter".into());
        }
        cur.insert(k.clone(), text.clone());
        let now = refs_of(&cur);
        for r in &ever_block_referenced {
            if !now.contains(r) {
                f.push("once-referenced-now-unreferenced".into());
            }
        }
        ever_block_referenced.extend(now);
    }
    f.sort();
    f.dedup();
    f
}

// ------------------------------------------------------------------ dumps

fn node_kind(n: &GraphNode) -> String {
    n.to_symbol()
}

pub fn dump_db(db: &Database, cur: &HashMap<String, String>) -> Vec<(String, String)> {
    let g = db.graph();
    let mut out: Vec<(String, String)> = vec![];
    let mut ks: Vec<String> = cur.keys().cloned().collect();
    ks.sort();
    let mut gk: Vec<String> = g.keys().iter().map(|k| k.to_string()).collect();
    gk.sort();
    out.push(("keys".into(), format!("{:?}", gk)));
    for k in &ks {
        let key: Key = k.as_str().into();
        out.push((format!("export {}", k), g.to_markdown(&key)));
        out.push((format!("content {}", k), format!("{:?}", db.get_document(&key))));
        out.push((format!("title {}", k), format!("{:?}", g.get_key_title(&key))));
        let mut b: Vec<String> = g
            .get_block_references_to(&key)
            .iter()
            .map(|id| format!("{}@{:?}", g.node(*id).node_key(), g.node_line_range(*id)))
            .collect();
        b.sort();
        let mut i: Vec<String> = g
            .get_inline_references_to(&key)
            .iter()
            .map(|id| format!("{}@{:?}", g.node(*id).node_key(), g.node_line_range(*id)))
            .collect();
        i.sort();
        out.push((format!("blockrefs {}", k), format!("{:?}", b)));
        out.push((format!("inlinerefs {}", k), format!("{:?}", i)));
        let mut refs_in: Vec<String> = g
            .get_block_references_in(&key)
            .iter()
            .map(|id| format!("{:?}@{:?}", g.graph_node(*id).ref_key().map(|k| k.to_string()), g.node_line_range(*id)))
            .collect();
        refs_in.sort();
        out.push((format!("refs-in {}", k), format!("{:?}", refs_in)));
        let nlines = cur[k].split('\n').count() + 1;
        let at: Vec<String> = (0..nlines)
            .map(|l| match g.get_node_id_at(&key, l) {
                Some(id) => format!("{}:{}:{:?}", node_kind(&g.graph_node(id)), g.get_text(id), g.node_line_range(id)),
                None => "-".into(),
            })
            .collect();
        out.push((format!("node-at {}", k), format!("{:?}", at)));
    }
    let mut paths: Vec<String> = g
        .paths()
        .iter()
        .map(|p| {
            format!(
                "{} @{}:{:?}",
                p.ids().iter().map(|id| g.get_text(*id)).collect::<Vec<_>>().join(" > "),
                g.node(p.target()).node_key(),
                g.node_line_number(p.target())
            )
        })
        .collect();
    paths.sort();
    out.push(("paths".into(), format!("{:?}", paths)));
    for q in ["", "T", "two", "one", "B", "S1"] {
        out.push((
            format!("search {:?}", q),
            format!(
                "{:?}",
                db.global_search(q).iter().map(|p| (p.search_text.clone(), p.key.to_string(), p.line, p.node_rank, p.root)).collect::<Vec<_>>()
            ),
        ));
    }
    out
}

fn dump_server(s: &iwes::router::server::Server, cur: &HashMap<String, String>) -> Vec<(String, String)> {
    let mut out = vec![];
    let mut ks: Vec<String> = cur.keys().cloned().collect();
    ks.sort();
    for k in &ks {
        let td = TextDocumentIdentifier { uri: uri(k) };
        out.push((format!("formatting {}", k), format_on(s, k)));
        let mut refs: Vec<String> = s
            .handle_references(ReferenceParams {
                text_document_position: TextDocumentPositionParams { text_document: td.clone(), position: Position::new(0, 0) },
                context: ReferenceContext { include_declaration: false },
                work_done_progress_params: Default::default(),
                partial_result_params: Default::default(),
            })
            .iter()
            .map(|l| format!("{}:{}-{}", key_of_uri(&l.uri), l.range.start.line, l.range.end.line))
            .collect();
        refs.sort();
        out.push((format!("references {}", k), format!("{:?}", refs)));
        let mut hints: Vec<String> = s
            .handle_inlay_hints(InlayHintParams {
                text_document: td.clone(),
                range: Range::new(Position::new(0, 0), Position::new(1000, 0)),
                work_done_progress_params: Default::default(),
            })
            .iter()
            .map(|h| format!("{}:{}", h.position.line, match &h.label { InlayHintLabel::String(s) => s.clone(), _ => "?".into() }))
            .collect();
        hints.sort();
        out.push((format!("hints {}", k), format!("{:?}", hints)));
        let syms: Vec<String> = s
            .handle_document_symbols(DocumentSymbolParams {
                text_document: td.clone(),
                work_done_progress_params: Default::default(),
                partial_result_params: Default::default(),
            })
            .iter()
            .map(|x| format!("{}@{}", x.name, x.location.range.start.line))
            .collect();
        out.push((format!("documentSymbol {}", k), format!("{:?}", syms)));
    }
    for q in ["", "T", "two"] {
        let r = s.handle_workspace_symbols(WorkspaceSymbolParams {
            query: q.into(),
            work_done_progress_params: Default::default(),
            partial_result_params: Default::default(),
        });
        let v: Vec<String> = match r {
            WorkspaceSymbolResponse::Flat(v) => v.iter().map(|x| format!("{}@{}:{}", x.name, key_of_uri(&x.location.uri), x.location.range.start.line)).collect(),
            _ => vec![],
        };
        out.push((format!("workspace/symbol {:?}", q), format!("{:?}", v)));
    }
    out
}

fn diff_labels(a: &[(String, String)], b: &[(String, String)]) -> (Vec<String>, String) {
    let mut labels = vec![];
    let mut first = String::new();
    let bm: BTreeMap<&String, &String> = b.iter().map(|(k, v)| (k, v)).collect();
    for (k, v) in a {
        match bm.get(k) {
            Some(w) if *w == v => {}
            other => {
                let l = k.split(' ').next().unwrap().to_string();
                if !labels.contains(&l) {
                    labels.push(l);
                }
                if first.is_empty() {
                    first = format!("{}: incremental {} vs fresh {}", k, trunc(v, 300), trunc(&other.map(|s| s.to_string()).unwrap_or("<absent>".into()), 300));
                }
            }
        }
    }
    if a.len() != b.len() && labels.is_empty() {
        labels.push("entries".into());
    }
    (labels, first)
}

// ====================================================================== C04

pub struct C04;

fn depths(tier: Tier) -> (usize, usize, usize) {
    // (Database route lib 0, Database route other libs, Server route depth)
    match tier {
        Tier::Quick => (3, 2, 2),
        Tier::Thorough => (4, 3, 3),
    }
}

impl Engine for C04 {
    fn id(&self) -> &'static str {
        "C04"
    }
    fn rule(&self) -> String {
        format!(
            "all operation sequences upd(key, text) over keys {:?} x {} texts {:?}, from 3 initial libraries, executed on the real Database (update_document) and, up to a smaller depth, on a real Server through didChange/didSave; after the last step the canonical dump of every answer (export, titles, block/inline backlinks with lines, references-in, node at every line, outline paths, ordered search results; LSP: formatting, references, hints, symbols) must equal the dump of a fresh build of the current texts. A case is one history (every prefix is its own case). non-trivial = the history changes the library text-state",
            KEYS,
            TEXTS.len(),
            TEXTS.iter().map(|t| t.0).collect::<Vec<_>>()
        )
    }
    fn bound(&self, tier: Tier) -> String {
        let d = depths(tier);
        format!("Database route: depth <= {} from library 0, <= {} from libraries 1,2; Server route (didChange, last op as didSave): depth <= {}", d.0, d.1, d.2)
    }
    fn assumptions(&self) -> Vec<String> {
        vec![
            "node ids are never compared (they legitimately differ between incremental and fresh builds)".into(),
            "texts outside the alphabet and histories longer than the bound are not covered".into(),
        ]
    }
    fn enumerate(&self, tier: Tier, emit: &mut dyn FnMut(&str)) {
        let d = depths(tier);
        enumerate_histories(d.0, d.1, &mut |c| emit(&format!("db|{}", c)));
        enumerate_histories(d.2, d.2.min(2), &mut |c| emit(&format!("srv|{}", c)));
    }
    fn features(&self, case: &str) -> Vec<String> {
        let (_, rest) = case.split_once('|').unwrap();
        let (lib, ops) = parse_history(rest);
        history_features(&ops, &init_lib(lib))
    }
    fn run(&self, case: &str, _ctx: &Ctx) -> CaseResult {
        let (route, rest) = case.split_once('|').unwrap();
        let (lib, ops) = parse_history(rest);
        let init = init_lib(lib);
        let feats = history_features(&ops, &init);
        let mut cur = init.clone();
        let mut failures = vec![];
        let mut tr = 0u64;
        let res: Result<(Vec<(String, String)>, Vec<(String, String)>), PanicInfo> = if route == "db" {
            guarded(|| {
                let mut db = Database::new(init.clone(), true, opts(""));
                for (k, _, text) in &ops {
                    db.update_document(k.as_str().into(), text.clone());
                    cur.insert(k.clone(), text.clone());
                    tr += 1;
                }
                let fresh = Database::new(cur.clone(), true, opts(""));
                (dump_db(&db, &cur), dump_db(&fresh, &cur))
            })
        } else {
            guarded(|| {
                let mut s = server(&init, "");
                for (i, (k, _, text)) in ops.iter().enumerate() {
                    if i + 1 == ops.len() && ops.len() > 1 {
                        s.handle_did_save_text_document(DidSaveTextDocumentParams {
                            text_document: TextDocumentIdentifier { uri: uri(k) },
                            text: Some(text.clone()),
                        });
                    } else {
                        s.handle_did_change_text_document(DidChangeTextDocumentParams {
                            text_document: VersionedTextDocumentIdentifier { uri: uri(k), version: i as i32 },
                            content_changes: vec![TextDocumentContentChangeEvent { range: None, range_length: None, text: text.clone() }],
                        });
                    }
                    cur.insert(k.clone(), text.clone());
                    tr += 1;
                }
                let fresh = server(&cur, "");
                (dump_server(&s, &cur), dump_server(&fresh, &cur))
            })
        };
        let mut outcome = "equal".to_string();
        match res {
            Err(p) => {
                failures.push(panic_failure(p, &feats, "history"));
                outcome = "panic".into();
            }
            Ok((a, b)) => {
                if a != b {
                    let (labels, first) = diff_labels(&a, &b);
                    outcome = format!("diff:{}", labels.join("+"));
                    failures.push(Failure { clause: "differs-from-fresh".into(), site: labels.join("+"), features: feats.clone(), detail: first });
                }
            }
        }
        let nontrivial = {
            let mut c = init.clone();
            for (k, _, t) in &ops {
                c.insert(k.clone(), t.clone());
            }
            c != init
        };
        CaseResult { transitions: tr, nontrivial, outcome, failures, ..Default::default() }
    }
}

// ====================================================================== C20

pub struct C20;

/// R7: arena invariant walker over the public read API of Graph.
pub fn invariants(g: &Graph) -> Result<usize, String> {
    let nodes = g.nodes();
    let mut seen: HashSet<u64> = HashSet::new();
    let keys = g.keys();
    let roots: Vec<(Key, u64)> = keys.iter().map(|k| (k.clone(), g.get_document_id(k))).collect();
    let rs: BTreeSet<u64> = roots.iter().map(|x| x.1).collect();
    if rs.len() != roots.len() {
        return Err("two keys share a root node".into());
    }
    // iterative walk: (id, expected prev)
    for (key, r) in &roots {
        let rn = g.graph_node(*r);
        if !rn.is_document() {
            return Err(format!("root of {} is not a Document node", key));
        }
        if rn.key().as_ref() != Some(key) {
            return Err(format!("root of {} carries key {:?}", key, rn.key()));
        }
        let mut stack: Vec<(u64, Option<u64>, Option<u64>)> = vec![(*r, None, None)]; // (id, prev, parent)
        let mut last_line: usize = 0;
        while let Some((id, prev, parent)) = stack.pop() {
            if id as usize >= nodes.len() {
                return Err(format!("pointer {} outside the arena", id));
            }
            let n = g.graph_node(id);
            if n.is_empty() {
                return Err(format!("pointer into tombstone {}", id));
            }
            if n.id() != id {
                return Err(format!("node at index {} has id {}", id, n.id()));
            }
            if !seen.insert(id) {
                return Err(format!("node {} reached twice", id));
            }
            if n.prev_id() != prev {
                return Err(format!("prev of {} is {:?}, the walk came from {:?}", id, n.prev_id(), prev));
            }
            if n.is_document() && id != *r {
                return Err(format!("document node {} inside the tree of {}", id, key));
            }
            // navigation consistency
            let ptr = g.node(id);
            let doc = ptr.to_document().and_then(|d| d.id());
            if doc != Some(*r) {
                return Err(format!("to_document of {} is {:?}, expected {}", id, doc, r));
            }
            if ptr.node_key() != *key {
                return Err(format!("node_key of {} is {}, expected {}", id, ptr.node_key(), key));
            }
            let par = ptr.to_parent().and_then(|p| p.id());
            if par != parent {
                return Err(format!("to_parent of {} is {:?}, expected {:?}", id, par, parent));
            }
            // document order: line ranges (where recorded) do not go backwards in pre-order
            if let Some(range) = g.node_line_range(id) {
                if range.start < last_line {
                    return Err(format!("node {} starts at line {} after a node starting at {}", id, range.start, last_line));
                }
                last_line = range.start;
            }
            // next first onto the stack so that the child subtree is walked before the next sibling
            if !n.is_document() {
                if let Some(x) = n.next_id() {
                    stack.push((x, Some(id), parent));
                }
            }
            if let Some(c) = n.child_id() {
                stack.push((c, Some(id), Some(id)));
            }
        }
    }
    for (i, n) in nodes.iter().enumerate() {
        if !n.is_empty() && !seen.contains(&(i as u64)) {
            return Err(format!("live node {} is unreachable from every root: {}", i, n.to_symbol()));
        }
    }
    Ok(seen.len())
}

fn subtree_snapshot(g: &Graph, key: &Key) -> Vec<GraphNode> {
    let mut out = vec![];
    let mut stack = vec![g.get_document_id(key)];
    while let Some(id) = stack.pop() {
        let n = g.graph_node(id);
        if let Some(x) = n.next_id() {
            if !n.is_document() {
                stack.push(x);
            }
        }
        if let Some(c) = n.child_id() {
            stack.push(c);
        }
        out.push(n);
    }
    out
}

/// `doc|text`: the note is loaded, edited away, edited back and inserted under a new key; the
/// walker runs after every step and on the patch graphs
fn run_doc_shapes(text: &str) -> CaseResult {
    let feats = crate::oracle::doc_features(text);
    let init = lib_of(&[("1", text), ("2", "# two\n\n[one](1)\n")]);
    let mut tr = 0u64;
    let import_ok = guarded(|| Database::new(init.clone(), true, opts(""))).is_ok();
    if !import_ok {
        // a panic of the reader is C03's
        return CaseResult { transitions: 1, outcome: "panic-skip:import".into(), ..Default::default() };
    }
    let r = guarded(|| -> Result<usize, String> {
        let mut db = Database::new(init.clone(), true, opts(""));
        invariants(db.graph()).map_err(|e| format!("after import: {}", e))?;
        let steps: [(&str, &str); 4] = [("1", "# away\n\ntext\n"), ("1", text), ("3", text), ("2", "# two again\n")];
        for (k, t) in steps {
            db.update_document(k.into(), t.to_string());
            tr += 1;
            invariants(db.graph()).map_err(|e| format!("after update of {} to {:?}: {}", k, trunc(t, 60), e))?;
        }
        let g = db.graph();
        let mut n = 0;
        for key in g.keys() {
            let mut patch = g.new_patch();
            patch.build_key_from_iter(&key, g.collect(&key).iter());
            tr += 1;
            n = invariants(&patch).map_err(|e| format!("patch graph of collect({}): {}", key, e))?;
        }
        Ok(n)
    });
    let mut failures = vec![];
    let outcome = match r {
        Err(p) => {
            failures.push(panic_failure(p, &feats, "doc shapes"));
            "panic".to_string()
        }
        Ok(Err(e)) => {
            failures.push(Failure { clause: "invariant".into(), site: "doc-shape".into(), features: feats, detail: format!("note {:?}: {}", trunc(text, 200), e) });
            "malformed".to_string()
        }
        Ok(Ok(_)) => "well-formed".to_string(),
    };
    CaseResult { transitions: tr, nontrivial: true, outcome, failures, ..Default::default() }
}

impl Engine for C20 {
    fn id(&self) -> &'static str {
        "C20"
    }
    fn rule(&self) -> String {
        "the same histories as C04 on the real Database; after the last step an independent walker (R7) checks the arena: keys map to distinct live Document nodes, child/next walks from the roots are pairwise disjoint and cover exactly the live nodes, every prev pointer is the walk predecessor, no pointer into a tombstone, id == index, to_document/node_key/to_parent agree with the walk, pre-order == document order, and the last update left every other note's nodes bit-identical; the same walker runs on the patch graphs built from collect() and squash(depth 2) of every note (formatting / refactoring previews). Document family (`doc|text`): every block forest of the bound and every wide container (8 container kinds with 1..=5 blocks inside and 0..=2 behind) as a note of a two-note library: loaded, edited away, edited back, inserted under a new key, the other note edited; the walker runs after every step and on the patch graphs. non-trivial = history changes the text-state".into()
    }
    fn bound(&self, tier: Tier) -> String {
        let d = depths(tier);
        format!("depth <= {} from library 0, <= {} from libraries 1,2; document family: wide containers + block forests <= {} nodes", d.0, d.1, if tier == Tier::Thorough { 4 } else { 3 })
    }
    fn assumptions(&self) -> Vec<String> {
        vec!["the walker reads the graph only through Graph::{nodes, graph_node, keys, get_document_id, node, node_line_range}".into()]
    }
    fn enumerate(&self, tier: Tier, emit: &mut dyn FnMut(&str)) {
        let d = depths(tier);
        enumerate_histories(d.0, d.1, emit);
        // every shape the builder can be asked to build, as a note of a two-note library (`doc|text`)
        let mut doc = |t: &str| emit(&format!("doc|{}", t));
        crate::space::wide_container_docs(&mut doc);
        crate::space::blank_nested_docs(&mut doc);
        crate::space::sibling_run_docs(&mut doc);
        if tier == Tier::Thorough {
            crate::space::block_docs(4, 3, 4, true, &mut doc);
        } else {
            crate::space::block_docs(3, 2, 3, true, &mut doc);
        }
    }
    fn features(&self, case: &str) -> Vec<String> {
        if let Some(text) = case.strip_prefix("doc|") {
            return crate::oracle::doc_features(text);
        }
        let (lib, ops) = parse_history(case);
        history_features(&ops, &init_lib(lib))
    }
    fn run(&self, case: &str, _ctx: &Ctx) -> CaseResult {
        if let Some(text) = case.strip_prefix("doc|") {
            return run_doc_shapes(text);
        }
        let (lib, ops) = parse_history(case);
        let init = init_lib(lib);
        let feats = history_features(&ops, &init);
        let mut tr = 0u64;
        let mut failures = vec![];
        let mut live = 0usize;
        let r = guarded(|| -> Result<usize, String> {
            let mut db = Database::new(init.clone(), true, opts(""));
            let mut before: Vec<(Key, Vec<GraphNode>)> = vec![];
            for (i, (k, _, text)) in ops.iter().enumerate() {
                if i + 1 == ops.len() {
                    let g = db.graph();
                    for key in g.keys() {
                        if key.to_string() != *k {
                            before.push((key.clone(), subtree_snapshot(g, &key)));
                        }
                    }
                }
                db.update_document(k.as_str().into(), text.clone());
                tr += 1;
            }
            let g = db.graph();
            let n = invariants(g)?;
            for (key, snap) in &before {
                if subtree_snapshot(g, key) != *snap {
                    return Err(format!("updating another note changed the nodes of {}", key));
                }
            }
            // patch graphs
            for key in g.keys() {
                let mut patch = g.new_patch();
                patch.build_key_from_iter(&key, g.collect(&key).iter());
                tr += 1;
                invariants(&patch).map_err(|e| format!("patch graph of collect({}): {}", key, e))?;
                let mut patch2 = g.new_patch();
                let sq = g.squash(&key, 2);
                patch2.build_key_from_iter(&key, sq.iter());
                tr += 1;
                invariants(&patch2).map_err(|e| format!("patch graph of squash({}, 2): {}", key, e))?;
            }
            Ok(n)
        });
        let mut outcome = "well-formed".to_string();
        match r {
            Err(p) => {
                failures.push(panic_failure(p, &feats, "history"));
                outcome = "panic".into();
            }
            Ok(Err(e)) => {
                let cls = e.split(|c: char| c.is_ascii_digit()).next().unwrap_or("").trim().to_string();
                failures.push(Failure { clause: "invariant".into(), site: cls.clone(), features: feats.clone(), detail: e });
                outcome = format!("invariant:{}", cls);
            }
            Ok(Ok(n)) => live = n,
        }
        let _ = json!(null);
        CaseResult { transitions: tr, nontrivial: live > 0 && !ops.is_empty(), outcome: format!("{}:{}", outcome, live.min(40)), failures, ..Default::default() }
    }
}
