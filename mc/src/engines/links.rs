//! libspace engines: C05 (backlinks are exact) and C06 (titles refreshed, links never retargeted).

use crate::core::*;
use crate::drive::*;
use crate::libspace::{self, LibCase};
use crate::oracle::*;
use liwe::graph::{Graph, GraphContext};
use liwe::model::node::NodePointer;
use lsp_types::*;
use std::collections::{BTreeMap, BTreeSet, HashMap};

fn to_state(lib: &BTreeMap<String, String>) -> HashMap<String, String> {
    lib.iter().map(|(k, v)| (k.clone(), v.clone())).collect()
}

fn lib_assumptions() -> Vec<String> {
    vec![
        "the reference link scanner folds pulldown-cmark's offset event stream (same option set as iwe) and resolves urls with its own resolver (split on '/', '.', '..', one trailing .md)".into(),
        "links that climb above the library root are a don't-care".into(),
    ]
}

fn lib_bound(tier: Tier) -> String {
    match tier {
        Tier::Quick => format!(
            "4 notes {:?}; owner in {{1, d/3}}; one link block over {} placements x {} kinds x all url forms (correct, +.md, ./, detour, bare, missing, external) x other-note styles; links-back / linked-title variants; two link blocks over {{block-ref, inline-para}} x reg x base url forms",
            libspace::KEYS,
            libspace::PLACEMENTS.len(),
            libspace::KINDS.len()
        ),
        Tier::Thorough => format!(
            "4 notes {:?}; owner in {{1, d/3, 2}}; one link block over {} placements x {} kinds x all url forms x other-note styles x title styles; two link blocks over 6 placements x {{reg, wiki}} x all url forms",
            libspace::KEYS,
            libspace::PLACEMENTS.len(),
            libspace::KINDS.len()
        ),
    }
}

/// expected backlinks of the whole library: target key -> set of (owner, line of the linking block, is_block_reference)
pub fn expected_backlinks(lib: &BTreeMap<String, String>) -> BTreeMap<String, BTreeSet<(String, usize, bool)>> {
    let mut e: BTreeMap<String, BTreeSet<(String, usize, bool)>> = BTreeMap::new();
    for (k, t) in lib {
        for l in scan_links(t) {
            if is_external(&l.dest) {
                continue;
            }
            if let Some(target) = resolve(&dir_of(k), &l.dest) {
                let line = pos16(t, l.block_start).0;
                e.entry(target).or_default().insert((k.clone(), line, l.alone_in_para && !l.in_table));
            }
        }
    }
    e
}

// ====================================================================== C05

pub struct C05;

impl Engine for C05 {
    fn id(&self) -> &'static str {
        "C05"
    }
    fn rule(&self) -> String {
        "every library of the space is imported; for every note (and every missing name that some link resolves to) the set of (linking note, line of the linking block) reported by Graph::get_block_references_to + get_inline_references_to, by textDocument/references and the counts shown by textDocument/inlayHint must equal the set computed by the independent link scanner + resolver over all note texts (external urls excluded, .md ignored, resolution relative to the linking note's directory). non-trivial = the library contains at least one internal link that resolves to an existing note".into()
    }
    fn bound(&self, tier: Tier) -> String {
        match tier {
            Tier::Quick => lib_bound(Tier::Thorough),
            Tier::Thorough => format!("{}; plus every note (1, 2, d/3, d/4, dx/5) as owner and two link blocks over all 16 placements x all 6 kinds x {{reg, wiki}} x all url forms", lib_bound(Tier::Thorough)),
        }
    }
    fn assumptions(&self) -> Vec<String> {
        let mut a = lib_assumptions();
        a.push("the order of returned locations is not compared (C16 looks at order)".into());
        a
    }
    fn enumerate(&self, tier: Tier, emit: &mut dyn FnMut(&str)) {
        // the deep space runs in a few seconds, so the quick tier uses it; thorough goes one level deeper
        libspace::enumerate_level(if tier == Tier::Thorough { 2 } else { 1 }, &[""], &mut |c| emit(&c.to_string()));
        // the deep space once more on a graph in which every note has been updated with its own text
        libspace::enumerate_level(1, &[""], &mut |c| {
            if c.title == "plain" && (c.others == "titled" || c.others == "back") {
                emit(&format!("{}|pre=touch", c.to_string()))
            }
        });
    }
    fn features(&self, case: &str) -> Vec<String> {
        LibCase::parse(case).features()
    }
    fn run(&self, case: &str, _ctx: &Ctx) -> CaseResult {
        let lc = LibCase::parse(case);
        let lib = lc.build();
        let feats = lc.features();
        let exp = expected_backlinks(&lib);
        let mut failures: Vec<Failure> = vec![];
        let mut tr = 0u64;
        let state = to_state(&lib);
        // `|pre=touch`: a long-lived graph - every note has been sent once more, unchanged
        let touched = case.contains("|pre=touch");
        let g = match guarded(|| {
            let mut g = Graph::import(&state, opts(""));
            if touched {
                for (k, t) in &lib {
                    g.update_key(k.as_str().into(), t);
                }
            }
            g
        }) {
            Ok(g) => g,
            Err(_) => return CaseResult { outcome: "panic-skip".into(), ..Default::default() },
        };
        let mut targets: BTreeSet<String> = lib.keys().cloned().collect();
        targets.extend(exp.keys().cloned());
        targets.insert("nope".into());
        let mut push = |clause: &str, site: String, detail: String| {
            if !failures.iter().any(|f: &Failure| f.clause == clause && f.site == site) {
                failures.push(Failure { clause: clause.into(), site, features: feats.clone(), detail });
            }
        };
        for t in &targets {
            let want: BTreeSet<(String, String)> = exp.get(t).map(|s| s.iter().map(|(o, l, _)| (o.clone(), l.to_string())).collect()).unwrap_or_default();
            let key = t.as_str().into();
            tr += 1;
            let got: BTreeSet<(String, String)> = g
                .get_block_references_to(&key)
                .into_iter()
                .chain(g.get_inline_references_to(&key))
                .map(|id| ((&g).node(id).node_key().to_string(), g.node_line_range(id).map(|r| r.start.to_string()).unwrap_or("no-line".into())))
                .collect();
            if got != want {
                let missing: Vec<_> = want.difference(&got).cloned().collect();
                let ghost: Vec<_> = got.difference(&want).cloned().collect();
                let site = format!("{}{}", if missing.is_empty() { "" } else { "missing" }, if ghost.is_empty() { "" } else { "+ghost" });
                push("graph-backlinks", site, format!("backlinks of {}: expected {:?} got {:?} (missing {:?}, not expected {:?}); library {:?}", t, want, got, missing, ghost, lib));
            }
        }
        // LSP level
        if let Ok(srv) = guarded(|| server(&state, "")) {
            for t in lib.keys() {
                let want: BTreeSet<(String, usize)> = exp.get(t).map(|s| s.iter().map(|(o, l, _)| (o.clone(), *l)).collect()).unwrap_or_default();
                tr += 1;
                let r = guarded(|| {
                    srv.handle_references(ReferenceParams {
                        text_document_position: TextDocumentPositionParams { text_document: TextDocumentIdentifier { uri: uri(t) }, position: Position::new(0, 0) },
                        context: ReferenceContext { include_declaration: false },
                        work_done_progress_params: Default::default(),
                        partial_result_params: Default::default(),
                    })
                });
                if let Ok(locs) = r {
                    let got: BTreeSet<(String, usize)> = locs.iter().map(|l| (key_of_uri(&l.uri), l.range.start.line as usize)).collect();
                    if got != want {
                        let missing = want.difference(&got).count();
                        let ghost = got.difference(&want).count();
                        let site = format!("{}{}", if missing == 0 { "" } else { "missing" }, if ghost == 0 { "" } else { "+ghost" });
                        push("references", site, format!("textDocument/references of {}: expected {:?} got {:?}; library {:?}", t, want, got, lib));
                    }
                }
                // reference counter hint: number of linking blocks with an inline link
                let want_inline = exp.get(t).map(|s| s.iter().filter(|x| !x.2).count()).unwrap_or(0);
                let want_block_docs: BTreeSet<String> = exp.get(t).map(|s| s.iter().filter(|x| x.2).map(|x| x.0.clone()).collect()).unwrap_or_default();
                tr += 1;
                if let Ok(hints) = guarded(|| {
                    srv.handle_inlay_hints(InlayHintParams {
                        text_document: TextDocumentIdentifier { uri: uri(t) },
                        range: Range::new(Position::new(0, 0), Position::new(1000, 0)),
                        work_done_progress_params: Default::default(),
                    })
                }) {
                    let labels: Vec<String> = hints.iter().map(|h| match &h.label { InlayHintLabel::String(s) => s.clone(), _ => String::new() }).collect();
                    let counter: Option<usize> = labels.iter().find(|l| l.starts_with('‹')).and_then(|l| l.trim_start_matches('‹').trim_end_matches('›').parse().ok());
                    let got_inline = counter.unwrap_or(0);
                    if got_inline != want_inline {
                        push("hint-count", if got_inline < want_inline { "fewer".into() } else { "more".into() }, format!("inline reference counter of {}: expected {} got {} (hints {:?}); library {:?}", t, want_inline, got_inline, labels, lib));
                    }
                    let containers = labels.iter().filter(|l| l.starts_with('↖')).count();
                    // one container hint per distinct title of a block-referencing note
                    let want_titles: BTreeSet<String> = want_block_docs
                        .iter()
                        .map(|o| {
                            let bs = extract(&lib[o]);
                            match bs.first() {
                                Some(B::Heading(t)) => plain_text(t),
                                _ => String::new(),
                            }
                        })
                        .collect();
                    if containers != want_titles.len() && !lc.features().iter().any(|f| f == "title=link") {
                        push("hint-containers", if containers < want_titles.len() { "fewer".into() } else { "more".into() }, format!("container hints of {}: expected one per {:?}, got {:?}; library {:?}", t, want_titles, labels, lib));
                    }
                }
            }
        }
        let nontrivial = exp.iter().any(|(t, s)| lib.contains_key(t) && !s.is_empty());
        let outcome = if failures.is_empty() { "exact".to_string() } else { failures.iter().map(|f| format!("{}:{}", f.clause, f.site)).collect::<Vec<_>>().join(",") };
        CaseResult { transitions: tr, nontrivial, outcome, failures, ..Default::default() }
    }
}

// ====================================================================== C06

pub struct C06;

fn first_heading_text(text: &str) -> Option<String> {
    match extract(text).first() {
        Some(B::Heading(t)) => Some(plain_text(t)),
        // front-matter first, then heading
        Some(B::Meta(_)) => match extract(text).get(1) {
            Some(B::Heading(t)) => Some(plain_text(t)),
            _ => None,
        },
        _ => None,
    }
}

fn norm_ws(s: &str) -> String {
    s.split_whitespace().collect::<Vec<_>>().join(" ")
}

impl Engine for C06 {
    fn id(&self) -> &'static str {
        "C06"
    }
    fn rule(&self) -> String {
        "every library of the space is formatted (import/export of the library and the LSP formatting request for the owner note), for refs_extension \"\" and \".md\"; links of input and output are matched by ordinal position with the independent link scanner: same kind; destination resolves (own resolver, from the linking note's directory) to the same key, textual difference limited to the configured extension; text equals the plain text of the target's first heading iff the link is an ordinary link / block reference, internal, and the note it resolves to exists and starts with a heading, otherwise the text is unchanged. non-trivial = some link text was refreshed or had to stay".into()
    }
    fn bound(&self, tier: Tier) -> String {
        match tier {
            Tier::Quick => format!("refs_extension \"\": {}; refs_extension \".md\": {}", lib_bound(Tier::Thorough), lib_bound(Tier::Quick)),
            Tier::Thorough => format!("both refs_extension settings: {}; refs_extension \"\" also with every note as owner and two link blocks over all 16 placements x all 6 kinds x {{reg, wiki}} x all url forms", lib_bound(Tier::Thorough)),
        }
    }
    fn assumptions(&self) -> Vec<String> {
        let mut a = lib_assumptions();
        a.push("when the target's heading itself contains a link whose text is refreshed in the same pass, both the old and the new plain text of that heading are accepted".into());
        a
    }
    fn enumerate(&self, tier: Tier, emit: &mut dyn FnMut(&str)) {
        libspace::enumerate_level(if tier == Tier::Thorough { 2 } else { 1 }, &[""], &mut |c| emit(&c.to_string()));
        libspace::enumerate(tier == Tier::Thorough, &[".md"], &mut |c| emit(&c.to_string()));
    }
    fn features(&self, case: &str) -> Vec<String> {
        LibCase::parse(case).features()
    }
    fn run(&self, case: &str, _ctx: &Ctx) -> CaseResult {
        let lc = LibCase::parse(case);
        let lib = lc.build();
        let feats = lc.features();
        let state = to_state(&lib);
        let ext = lc.ext.as_str();
        let mut failures: Vec<Failure> = vec![];
        let mut tr = 0u64;
        let mut outs: Vec<(String, BTreeMap<String, String>)> = vec![];
        tr += 1;
        match p2(&state, ext) {
            Ok(m) => outs.push(("export".into(), m.into_iter().collect())),
            Err(_) => return CaseResult { outcome: "panic-skip".into(), ..Default::default() },
        }
        tr += 1;
        if let Ok(t) = p4(&state, &lc.owner, ext) {
            let mut m = BTreeMap::new();
            m.insert(lc.owner.clone(), t);
            outs.push(("lsp-formatting".into(), m));
        }
        let mut refreshed = 0;
        let mut push = |clause: &str, site: String, detail: String| {
            if !failures.iter().any(|f: &Failure| f.clause == clause && f.site == site) {
                failures.push(Failure { clause: clause.into(), site, features: feats.clone(), detail });
            }
        };
        // titles: before and after formatting (a title containing a link may change in the same pass)
        let title_in: BTreeMap<String, Option<String>> = lib.iter().map(|(k, t)| (k.clone(), first_heading_text(t))).collect();
        for (route, out) in &outs {
            let title_out: BTreeMap<String, Option<String>> = outs[0].1.iter().map(|(k, t)| (k.clone(), first_heading_text(t))).collect();
            for (k, t_out) in out {
                let t_in = &lib[k];
                let a = scan_links(t_in);
                let b = scan_links(t_out);
                if a.len() != b.len() {
                    push("link-count", String::new(), format!("{} {}: {} links in, {} links out: {:?} -> {:?}", route, k, a.len(), b.len(), t_in, t_out));
                    continue;
                }
                let d = dir_of(k);
                for (x, y) in a.iter().zip(b.iter()) {
                    let kind_ok = x.kind == y.kind || (x.kind == "reg" && y.kind == "auto") || (x.kind == "auto" && y.kind == "reg");
                    if !kind_ok {
                        push("kind", format!("{}->{}", x.kind, y.kind), format!("{} {}: link {:?} became {:?} ({:?} -> {:?})", route, k, x.dest, y.dest, t_in, t_out));
                        continue;
                    }
                    if is_external(&x.dest) {
                        if x.dest != y.dest {
                            push("destination", "external".into(), format!("{} {}: external {:?} -> {:?}", route, k, x.dest, y.dest));
                        }
                        if norm_ws(&x.text) != norm_ws(&y.text) {
                            push("text", "external".into(), format!("{} {}: text of external link {:?}: {:?} -> {:?}", route, k, x.dest, x.text, y.text));
                        }
                        continue;
                    }
                    let rx = resolve(&d, &x.dest);
                    let ry = resolve(&d, &y.dest);
                    if rx.is_some() && rx != ry {
                        push("destination", if x.alone_in_para { "block".into() } else { "inline".into() }, format!("{} {}: {:?} (resolves to {:?}) became {:?} (resolves to {:?}); {:?} -> {:?}", route, k, x.dest, rx, y.dest, ry, t_in, t_out));
                        continue;
                    }
                    if rx.is_some() {
                        // textual difference limited to the configured extension
                        let sx = strip_md(&x.dest);
                        let sy = strip_md(&y.dest);
                        let same_text = sx == sy;
                        let block = x.alone_in_para && !x.in_table;
                        // block references are re-relativised on output (C15); inline urls must stay as written
                        if !same_text && !block {
                            push("destination-text", "inline".into(), format!("{} {}: inline url rewritten {:?} -> {:?}", route, k, x.dest, y.dest));
                        }
                        // (whether the extension is added is presentation; the property only forbids
                        // changes of the destination beyond it)
                    }
                    // text rule
                    let target_title_in = rx.as_ref().and_then(|t| title_in.get(t).cloned().flatten());
                    let target_title_out = rx.as_ref().and_then(|t| title_out.get(t).cloned().flatten());
                    let exists = rx.as_ref().map(|t| lib.contains_key(t)).unwrap_or(false);
                    let refresh = x.kind == "reg" && exists && target_title_in.is_some();
                    let got = norm_ws(&y.text);
                    if refresh {
                        refreshed += 1;
                        let ok = Some(&got) == target_title_in.as_ref().map(|s| norm_ws(s)).as_ref() || Some(&got) == target_title_out.as_ref().map(|s| norm_ws(s)).as_ref();
                        if !ok {
                            push(
                                "title",
                                if block_like(x) { "block".into() } else { "inline".into() },
                                format!("{} {}: link {:?} resolves to {:?} titled {:?} but its text is {:?} ({:?} -> {:?})", route, k, x.dest, rx, target_title_in, y.text, t_in, t_out),
                            );
                        }
                    } else if x.kind == "wiki" {
                        // bare wiki-links show their target; nothing to compare beyond the destination
                    } else if got != norm_ws(&x.text) {
                        push(
                            "text-changed",
                            format!("{}:{}", x.kind, if exists { "untitled-target" } else { "missing-target" }),
                            format!("{} {}: link {:?} (kind {}, target {:?} exists={}) text {:?} -> {:?}", route, k, x.dest, x.kind, rx, exists, x.text, y.text),
                        );
                    }
                }
            }
        }
        let outcome = if failures.is_empty() { "ok".to_string() } else { failures.iter().map(|f| format!("{}:{}", f.clause, f.site)).collect::<Vec<_>>().join(",") };
        CaseResult { transitions: tr, nontrivial: refreshed > 0, outcome, failures, ..Default::default() }
    }
}

fn block_like(x: &LinkOcc) -> bool {
    x.alone_in_para && !x.in_table
}
