//! C17 — squash expands block references to a bounded depth and always terminates.
//!
//! A case is one library in a small mini-syntax plus a depth:
//!
//! ```text
//! d=2|1=#T1;p1a;>2|2=#T2;>1
//! ```
//!
//! `d=<depth>` then the notes `key=block;block;...` separated by `|`. The note that is squashed is
//! always the first one. Blocks:
//!   `#text` / `##text` / ...   heading of that level (text may be empty)
//!   `>key`                     block reference `[r](key)` (a key that is not defined is a missing note)
//!   `L#text`                   a heading inside a list item (`- # text`)           (used by C18)
//!   `Q#text`                   a heading inside a block quote (`> # text`)         (used by C18)
//!   `Q>key`                    a block quote that contains only the reference (`> [r](key)`)
//!   `Q<text>>key`              a block quote with the paragraph <text>, then the reference
//!                              (`Qp>2` = `> p` / `>` / `> [r](2)`)
//!   `L>key` / `L<text>>key`    a bullet item whose text is <text> (default `item`) and whose second
//!                              block is the reference (`- item` / blank / `  [r](key)`)
//!   anything else              a paragraph with that text
//! Blocks are rendered separated by one blank line. A note spec `{i=a..b}=tmpl` stands for the
//! notes a..=b with `{i}` / `{i+1}` replaced in key and template (used for long chains).
//!
//! Run: `Graph::squash(key, depth)`, rebuild through `Graph::new().build_key_from_iter(key,
//! TreeIter::new(&tree))` and `export_key` — the code path of `iwe squash` — and, as a second
//! observation, `tree.iter().to_markdown(..)` which is what the `generate` command sends.
//!
//! Oracle (R5): recursive expansion over the R1 content trees of the *source texts*.

use crate::core::*;
use crate::drive::*;
use crate::oracle::{self, B, Tok};
use liwe::graph::{Graph, GraphContext};
use liwe::model::node::NodeIter;
use liwe::model::tree::TreeIter;
use liwe::model::Key;
use std::collections::{BTreeMap, BTreeSet, HashMap};
use std::rc::Rc;

// ====================================================================== mini-syntax (shared with C18)

/// `Q<text>>key` / `L<text>>key`: (container, text, key)
fn container_ref(tok: &str) -> Option<(char, &str, &str)> {
    let c = tok.chars().next()?;
    if (c != 'Q' && c != 'L') || tok[1..].starts_with('#') {
        return None;
    }
    let (text, key) = tok[1..].split_once('>')?;
    Some((c, text, key))
}

pub fn render_block(tok: &str) -> String {
    if let Some(k) = tok.strip_prefix('>') {
        return format!("[r]({})", k);
    }
    if let Some((c, text, key)) = container_ref(tok) {
        return match (c, text.is_empty()) {
            ('Q', true) => format!("> [r]({})", key),
            ('Q', false) => format!("> {}\n>\n> [r]({})", text, key),
            (_, true) => format!("- item\n\n  [r]({})", key),
            (_, false) => format!("- {}\n\n  [r]({})", text, key),
        };
    }
    let (prefix, rest) = if let Some(r) = tok.strip_prefix("L#") {
        ("- ", format!("#{}", r))
    } else if let Some(r) = tok.strip_prefix("Q#") {
        ("> ", format!("#{}", r))
    } else {
        ("", tok.to_string())
    };
    if rest.starts_with('#') {
        let n = rest.chars().take_while(|c| *c == '#').count();
        let text = &rest[n..];
        if text.is_empty() {
            format!("{}{}", prefix, "#".repeat(n))
        } else {
            format!("{}{} {}", prefix, "#".repeat(n), text)
        }
    } else {
        rest
    }
}

pub fn render_note(blocks: &[String]) -> String {
    if blocks.is_empty() {
        return String::new();
    }
    let mut s = blocks.iter().map(|b| render_block(b)).collect::<Vec<_>>().join("\n\n");
    s.push('\n');
    s
}

/// `1=#T;p;>2|2=#U` -> [(key, blocks)], templates expanded; order as written
pub fn parse_lib(s: &str) -> Vec<(String, Vec<String>)> {
    let mut out = vec![];
    for spec in s.split('|') {
        if spec.is_empty() {
            continue;
        }
        let (key, body) = match spec.split_once('=') {
            Some(x) => x,
            None => continue,
        };
        if key == "{i" {
            // template: "{i=a..b}=tmpl"  (split_once cut at the first '=')
            let (range, tmpl) = match body.split_once("}=") {
                Some(x) => x,
                None => continue,
            };
            let (a, b) = match range.split_once("..") {
                Some(x) => x,
                None => continue,
            };
            let (a, b): (usize, usize) = (a.parse().unwrap_or(1), b.parse().unwrap_or(1));
            for i in a..=b {
                let t = tmpl.replace("{i+1}", &(i + 1).to_string()).replace("{i}", &i.to_string());
                out.push((i.to_string(), split_blocks(&t)));
            }
        } else {
            out.push((key.to_string(), split_blocks(body)));
        }
    }
    out
}

fn split_blocks(body: &str) -> Vec<String> {
    let mut out = vec![];
    if body.is_empty() {
        return out;
    }
    for tok in body.split(';') {
        // block template "{j=a..b}tok"
        if let Some(rest) = tok.strip_prefix("{j=") {
            if let Some((range, t)) = rest.split_once('}') {
                if let Some((a, b)) = range.split_once("..") {
                    let (a, b): (usize, usize) = (a.parse().unwrap_or(1), b.parse().unwrap_or(1));
                    for j in a..=b {
                        out.push(t.replace("{j}", &j.to_string()));
                    }
                    continue;
                }
            }
        }
        out.push(tok.to_string());
    }
    out
}

pub fn lib_texts(notes: &[(String, Vec<String>)]) -> HashMap<String, String> {
    notes.iter().map(|(k, b)| (k.clone(), render_note(b))).collect()
}

pub fn show_texts(notes: &[(String, Vec<String>)]) -> String {
    notes.iter().map(|(k, b)| format!("{}.md={:?}", k, render_note(b))).collect::<Vec<_>>().join(" ")
}

// ====================================================================== R5: recursive expander

/// a paragraph that consists of exactly one internal link (the statement's "block reference")
pub fn block_ref_dest(b: &B) -> Option<String> {
    if let B::Para(t) = b {
        if t.len() == 1 {
            if let Tok::Link(_, dest, _) = &t[0] {
                if !oracle::is_external(dest) {
                    return Some(dest.clone());
                }
            }
        }
    }
    None
}

/// the link text of a reference is refreshed from the target's title (C06's business): wiped on both sides
fn wipe(b: &B) -> B {
    if block_ref_dest(b).is_some() {
        if let B::Para(t) = b {
            if let Tok::Link(k, d, _) = &t[0] {
                return B::Para(vec![Tok::Link(k.clone(), oracle::strip_md(d), vec![])]);
            }
        }
    }
    b.clone()
}

/// wipe the link text of every reference paragraph, containers included
fn wipe_deep(b: &B) -> B {
    match b {
        B::Quote(v) => B::Quote(v.iter().map(wipe_deep).collect()),
        B::List(o, items) => B::List(*o, items.iter().map(|it| it.iter().map(wipe_deep).collect()).collect()),
        x => wipe(x),
    }
}

fn show_b(b: &B) -> String {
    match b {
        B::Quote(v) => format!("QUOTE[{}]", v.iter().map(show_b).collect::<Vec<_>>().join(" ")),
        B::List(_, items) => format!("LIST[{}]", items.iter().map(|it| format!("ITEM[{}]", it.iter().map(show_b).collect::<Vec<_>>().join(" "))).collect::<Vec<_>>().join(" ")),
        B::Heading(t) => format!("H({})", oracle::plain_text(t)),
        B::Para(t) => match block_ref_dest(b) {
            Some(d) => format!("REF({})", d),
            None => format!("P({})", oracle::plain_text(t)),
        },
        x => format!("{:?}", x),
    }
}

fn kind_b(b: &B) -> &'static str {
    match b {
        B::Heading(_) => "heading",
        B::Para(_) => {
            if block_ref_dest(b).is_some() {
                "reference"
            } else {
                "paragraph"
            }
        }
        _ => "other",
    }
}

/// Adjacent lists of the same kind merge when Markdown text is read back, so list boundaries are
/// not compared: every list is taken apart into one-item lists (on both sides, at every level).
fn split_lists(bs: Vec<B>) -> Vec<B> {
    let mut out = vec![];
    for b in bs {
        match b {
            B::Quote(v) => out.push(B::Quote(split_lists(v))),
            B::List(o, items) => {
                for it in items {
                    out.push(B::List(o, vec![split_lists(it)]));
                }
            }
            x => out.push(x),
        }
    }
    out
}

enum SrcBlk {
    Own(B),
    /// resolved target key (None: climbs above the root), wiped paragraph, number of enclosing headings
    Ref(Option<String>, B, usize),
    /// a block quote / a list (ordered?, items) that contains a block reference somewhere
    Quote(Vec<SrcBlk>),
    List(bool, Vec<Vec<SrcBlk>>),
}

/// index (among the note's blocks) of the heading whose section directly contains the block
type Parent = Option<usize>;

struct SrcNote {
    blocks: Vec<SrcBlk>,
    parents: Vec<Parent>,
    /// nesting depth (1-based) of the deepest own heading
    own_nest: usize,
}

/// blocks inside a container. In a list item the first block is the item's text, never a reference.
fn src_inner(key: &str, bs: Vec<B>, ctx: usize, item: bool) -> (Vec<SrcBlk>, bool) {
    let mut out = vec![];
    let mut has_ref = false;
    for (i, b) in bs.into_iter().enumerate() {
        match b {
            B::Quote(v) => {
                let (inner, r) = src_inner(key, v.clone(), ctx, false);
                if r {
                    has_ref = true;
                    out.push(SrcBlk::Quote(inner));
                } else {
                    out.push(SrcBlk::Own(B::Quote(v)));
                }
            }
            B::List(o, items) => {
                let conv: Vec<(Vec<SrcBlk>, bool)> = items.iter().map(|it| src_inner(key, it.clone(), ctx, true)).collect();
                if conv.iter().any(|c| c.1) {
                    has_ref = true;
                    out.push(SrcBlk::List(o, conv.into_iter().map(|c| c.0).collect()));
                } else {
                    out.push(SrcBlk::Own(B::List(o, items)));
                }
            }
            b => match block_ref_dest(&b) {
                Some(dest) if !(item && i == 0) => {
                    has_ref = true;
                    out.push(SrcBlk::Ref(oracle::resolve(&oracle::dir_of(key), &dest), wipe(&b), ctx));
                }
                _ => out.push(SrcBlk::Own(b)),
            },
        }
    }
    (out, has_ref)
}

fn src_note(key: &str, text: &str) -> SrcNote {
    let bs = split_lists(oracle::canon_in(oracle::extract(text), false));
    // levels of the document-level headings in order (R2)
    let levels: Vec<u8> = oracle::heading_levels(text).into_iter().filter(|h| h.2 == 0).map(|h| h.0).collect();
    let mut li = 0;
    let mut stack: Vec<(u8, usize)> = vec![];
    let mut own_nest = 0;
    let mut blocks = vec![];
    let mut parents: Vec<Parent> = vec![];
    for b in bs {
        if let B::Heading(_) = &b {
            let l = levels.get(li).cloned().unwrap_or(1);
            li += 1;
            while stack.last().map(|t| t.0 >= l).unwrap_or(false) {
                stack.pop();
            }
            parents.push(stack.last().map(|t| t.1));
            stack.push((l, blocks.len()));
            own_nest = own_nest.max(stack.len());
            blocks.push(SrcBlk::Own(b));
        } else {
            parents.push(stack.last().map(|t| t.1));
            let (mut v, _) = src_inner(key, vec![b], stack.len(), false);
            blocks.push(v.pop().unwrap());
        }
    }
    SrcNote { blocks, parents, own_nest }
}

enum RefItem {
    Link(B),
    Exp(Rc<Pat>),
}

/// a non-reference block of the expected result
enum OwnItem {
    Leaf(B),
    /// a container whose content is again `own blocks + reference items`
    Quote(Rc<Pat>),
    List(bool, Vec<Rc<Pat>>),
}

/// expected content of one block sequence (a squashed note, the inside of a quote, a list item):
/// own blocks in order + one item per reference that stood among them
struct Pat {
    id: usize,
    owns: Vec<OwnItem>,
    /// (item, index among owns before which the reference stood in the source)
    refs: Vec<(RefItem, usize)>,
    /// number of blocks of the sequence
    len: usize,
    /// number of leaf blocks, containers opened up
    leaves: usize,
    nest: usize,
    /// number of blocks at the top level of the expected tree / largest number of children of one parent
    top_width: usize,
    max_width: usize,
    /// number of references to existing notes kept as links because the depth ran out
    exhausted: u64,
    expansions: u64,
    /// expansions that stand inside a quote / list item
    contained: u64,
}

struct R5<'a> {
    src: &'a BTreeMap<String, SrcNote>,
    memo: HashMap<(String, u32), Rc<Pat>>,
    next_id: usize,
}

const SIZE_CAP: usize = 2_000_000;

struct Acc {
    owns: Vec<OwnItem>,
    refs: Vec<(RefItem, usize)>,
    len: usize,
    leaves: usize,
    nest: usize,
    max_width: usize,
    exhausted: u64,
    expansions: u64,
    contained: u64,
}

impl<'a> R5<'a> {
    fn fresh(&mut self) -> usize {
        self.next_id += 1;
        self.next_id - 1
    }

    /// one block of a sequence; returns the number of blocks it contributes at this level
    fn add(&mut self, b: &SrcBlk, depth: u32, in_container: bool, acc: &mut Acc) -> usize {
        match b {
            SrcBlk::Own(x) => {
                acc.owns.push(OwnItem::Leaf(x.clone()));
                acc.len += 1;
                acc.leaves += 1;
                1
            }
            SrcBlk::Ref(target, para, ctx) => {
                let exists = target.as_ref().map(|t| self.src.contains_key(t)).unwrap_or(false);
                if exists && depth > 0 {
                    let sub = self.expand(target.as_ref().unwrap(), depth - 1);
                    acc.max_width = acc.max_width.max(sub.max_width);
                    acc.len = (acc.len + sub.len).min(SIZE_CAP);
                    acc.leaves = (acc.leaves + sub.leaves).min(SIZE_CAP);
                    if !in_container {
                        acc.nest = acc.nest.max(ctx + sub.nest);
                    }
                    acc.exhausted += sub.exhausted;
                    acc.expansions += 1 + sub.expansions;
                    acc.contained += sub.contained + if in_container { 1 } else { 0 };
                    let w = sub.top_width;
                    acc.refs.push((RefItem::Exp(sub), acc.owns.len()));
                    w
                } else {
                    if exists {
                        acc.exhausted += 1;
                    }
                    acc.len += 1;
                    acc.leaves += 1;
                    acc.refs.push((RefItem::Link(para.clone()), acc.owns.len()));
                    1
                }
            }
            SrcBlk::Quote(inner) => {
                let p = self.sequence(inner, depth, acc);
                // a quote left with nothing in it says nothing
                if p.len > 0 {
                    acc.owns.push(OwnItem::Quote(p));
                    acc.len += 1;
                    1
                } else {
                    0
                }
            }
            SrcBlk::List(o, items) => {
                let mut ps = vec![];
                for it in items {
                    let p = self.sequence(it, depth, acc);
                    if p.len > 0 {
                        ps.push(p);
                    }
                }
                if ps.is_empty() {
                    0
                } else {
                    acc.owns.push(OwnItem::List(*o, ps));
                    acc.len += 1;
                    1
                }
            }
        }
    }

    /// the inside of a container; counters are added to the enclosing accumulator
    fn sequence(&mut self, blocks: &[SrcBlk], depth: u32, outer: &mut Acc) -> Rc<Pat> {
        let mut acc = Acc { owns: vec![], refs: vec![], len: 0, leaves: 0, nest: 0, max_width: 0, exhausted: 0, expansions: 0, contained: 0 };
        let mut width = 0usize;
        for b in blocks {
            width = (width + self.add(b, depth, true, &mut acc)).min(SIZE_CAP);
        }
        outer.leaves = (outer.leaves + acc.leaves).min(SIZE_CAP);
        outer.max_width = outer.max_width.max(acc.max_width).max(width);
        outer.exhausted += acc.exhausted;
        outer.expansions += acc.expansions;
        outer.contained += acc.contained;
        let id = self.fresh();
        Rc::new(Pat { id, owns: acc.owns, refs: acc.refs, len: acc.len, leaves: acc.leaves, nest: 0, top_width: width, max_width: acc.max_width.max(width), exhausted: acc.exhausted, expansions: acc.expansions, contained: acc.contained })
    }

    fn expand(&mut self, key: &str, depth: u32) -> Rc<Pat> {
        if let Some(p) = self.memo.get(&(key.to_string(), depth)) {
            return p.clone();
        }
        let src = self.src;
        let note = &src[key];
        let mut acc = Acc { owns: vec![], refs: vec![], len: 0, leaves: 0, nest: note.own_nest, max_width: 0, exhausted: 0, expansions: 0, contained: 0 };
        let mut widths: BTreeMap<Parent, usize> = BTreeMap::new();
        for (bi, b) in note.blocks.iter().enumerate() {
            let w = self.add(b, depth, false, &mut acc);
            let e = widths.entry(note.parents[bi]).or_insert(0);
            *e = (*e + w).min(SIZE_CAP);
        }
        let top_width = widths.get(&None).cloned().unwrap_or(0);
        let max_width = acc.max_width.max(widths.values().cloned().max().unwrap_or(0));
        let id = self.fresh();
        let p = Rc::new(Pat { id, owns: acc.owns, refs: acc.refs, len: acc.len, leaves: acc.leaves, nest: acc.nest, top_width, max_width, exhausted: acc.exhausted, expansions: acc.expansions, contained: acc.contained });
        self.memo.insert((key.to_string(), depth), p.clone());
        p
    }
}

/// one admissible rendering of the pattern (references where they stood), for messages and multisets
fn flatten(p: &Pat, out: &mut Vec<B>) {
    let mut ri = 0;
    for (i, o) in p.owns.iter().enumerate() {
        while ri < p.refs.len() && p.refs[ri].1 <= i {
            flatten_ref(&p.refs[ri].0, out);
            ri += 1;
        }
        match o {
            OwnItem::Leaf(b) => out.push(b.clone()),
            OwnItem::Quote(q) => {
                let mut v = vec![];
                flatten(q, &mut v);
                out.push(B::Quote(v));
            }
            OwnItem::List(ord, items) => out.push(B::List(
                *ord,
                items
                    .iter()
                    .map(|it| {
                        let mut v = vec![];
                        flatten(it, &mut v);
                        v
                    })
                    .collect(),
            )),
        }
    }
    while ri < p.refs.len() {
        flatten_ref(&p.refs[ri].0, out);
        ri += 1;
    }
}

fn flatten_ref(r: &RefItem, out: &mut Vec<B>) {
    match r {
        RefItem::Link(b) => out.push(b.clone()),
        RefItem::Exp(p) => flatten(p, out),
    }
}

/// leaf blocks with the path of containers they stand in ('Q' quote, 'U' bullet item, 'O' ordered item)
fn leaves(bs: &[B], path: &str, out: &mut Vec<(String, B)>) {
    for b in bs {
        match b {
            B::Quote(v) => leaves(v, &format!("{}Q", path), out),
            B::List(o, items) => {
                for it in items {
                    leaves(it, &format!("{}{}", path, if *o { 'O' } else { 'U' }), out)
                }
            }
            x => out.push((path.to_string(), x.clone())),
        }
    }
}

type Memo = HashMap<(usize, usize, usize), bool>;

/// Does s[a .. a+p.len] consist of p's own blocks in order plus, anywhere between them, one
/// contiguous admissible rendering of every reference item? (position of a reference among its
/// siblings is a don't-care; containers are matched recursively)
fn matches(p: &Pat, s: &[B], a: usize, memo: &mut Memo) -> bool {
    let k = (p.id, s.as_ptr() as usize, a);
    if let Some(r) = memo.get(&k) {
        return *r;
    }
    let r = matches_inner(p, s, a, memo);
    memo.insert(k, r);
    r
}

fn ref_len(r: &RefItem) -> usize {
    match r {
        RefItem::Link(_) => 1,
        RefItem::Exp(p) => p.len,
    }
}

fn own_matches(o: &OwnItem, b: &B, memo: &mut Memo) -> bool {
    match (o, b) {
        (OwnItem::Leaf(x), y) => x == y,
        (OwnItem::Quote(q), B::Quote(v)) => v.len() == q.len && matches(q, v, 0, memo),
        (OwnItem::List(o1, items), B::List(o2, its)) => o1 == o2 && items.len() == its.len() && items.iter().zip(its.iter()).all(|(p, v)| v.len() == p.len && matches(p, v, 0, memo)),
        _ => false,
    }
}

fn matches_inner(p: &Pat, s: &[B], a: usize, memo: &mut Memo) -> bool {
    if a + p.len > s.len() {
        return false;
    }
    let nr = p.refs.len();
    let no = p.owns.len();
    // state (j owns consumed, mask of references consumed); position follows from the state
    let mut reach = vec![false; (no + 1) << nr];
    reach[0] = true;
    for mask in 0..(1usize << nr) {
        for j in 0..=no {
            if !reach[(j << nr) | mask] {
                continue;
            }
            let pos = a + j + (0..nr).filter(|i| mask & (1 << i) != 0).map(|i| ref_len(&p.refs[i].0)).sum::<usize>();
            if j < no && pos < s.len() && own_matches(&p.owns[j], &s[pos], memo) {
                reach[((j + 1) << nr) | mask] = true;
            }
            for i in 0..nr {
                if mask & (1 << i) != 0 {
                    continue;
                }
                let ok = match &p.refs[i].0 {
                    RefItem::Link(b) => pos < s.len() && s[pos] == *b,
                    RefItem::Exp(sub) => matches(sub, s, pos, memo),
                };
                if ok {
                    reach[(j << nr) | mask | (1 << i)] = true;
                }
            }
        }
    }
    // masks grow monotonically, owns within a mask are processed in increasing j: one pass suffices
    reach[(no << nr) | ((1 << nr) - 1)]
}

// ====================================================================== features (input side)

fn graph_features(notes: &[(String, Vec<String>)], src: &BTreeMap<String, SrcNote>, root: &str, depth: u32, pat: &Pat) -> Vec<String> {
    let mut f: BTreeSet<String> = BTreeSet::new();
    // reachable part of the block-reference graph
    fn collect(bs: &[SrcBlk], top: Option<usize>, cont: Option<char>, out: &mut Vec<(Option<String>, usize, usize, Option<char>)>) {
        for (i, b) in bs.iter().enumerate() {
            let ti = top.unwrap_or(i);
            match b {
                SrcBlk::Ref(t, _, ctx) => out.push((t.clone(), *ctx, ti, cont)),
                SrcBlk::Quote(v) => collect(v, Some(ti), Some('Q'), out),
                SrcBlk::List(_, items) => {
                    for it in items {
                        collect(it, Some(ti), Some('L'), out)
                    }
                }
                SrcBlk::Own(_) => {}
            }
        }
    }
    let edges = |k: &str| -> Vec<(Option<String>, usize, usize, Option<char>)> {
        // (target, enclosing headings, index of the top-level block, container)
        let mut v = vec![];
        collect(&src[k].blocks, None, None, &mut v);
        v
    };
    let mut reach: Vec<String> = vec![root.to_string()];
    let mut i = 0;
    while i < reach.len() {
        let k = reach[i].clone();
        for (t, _, _, _) in edges(&k) {
            if let Some(t) = t {
                if src.contains_key(&t) && !reach.contains(&t) {
                    reach.push(t);
                }
            }
        }
        i += 1;
    }
    let mut indeg: BTreeMap<String, usize> = BTreeMap::new();
    for k in &reach {
        let es = edges(k);
        let n = src[k].blocks.len();
        let mut seen_targets: Vec<String> = vec![];
        for (t, ctx, bi, cont) in &es {
            match cont {
                Some('Q') => {
                    f.insert("reference-in-quote".into());
                    f.insert("reference-in-container".into());
                }
                Some(_) => {
                    f.insert("reference-in-list-item".into());
                    f.insert("reference-in-container".into());
                }
                None => {}
            }
            match t {
                Some(t) if src.contains_key(t) => {
                    if t == k {
                        f.insert("self-block-reference".into());
                    }
                    if seen_targets.contains(t) {
                        f.insert("parallel-references".into());
                    }
                    seen_targets.push(t.clone());
                    *indeg.entry(t.clone()).or_insert(0) += 1;
                    let tn = &src[t];
                    if tn.blocks.is_empty() {
                        f.insert("empty-target".into());
                    } else if !matches!(tn.blocks.first(), Some(SrcBlk::Own(B::Heading(_)))) {
                        f.insert("untitled-target".into());
                    }
                }
                _ => {
                    f.insert("dangling-reference".into());
                }
            }
            if cont.is_some() {
                continue;
            }
            if *ctx == 0 {
                f.insert("reference-outside-section".into());
            }
            if *ctx >= 2 {
                f.insert("reference-under-sub-heading".into());
            }
            if *bi == 0 {
                f.insert("reference-first-block".into());
            }
            if *bi > 0 && matches!(src[k].blocks[*bi - 1], SrcBlk::Own(B::Heading(_))) {
                f.insert("reference-first-child".into());
            }
            if *bi + 1 == n {
                f.insert("reference-last".into());
            } else if matches!(src[k].blocks[*bi + 1], SrcBlk::Own(B::Heading(_))) {
                f.insert("reference-before-heading".into());
            } else if matches!(src[k].blocks[*bi + 1], SrcBlk::Own(_)) {
                f.insert("reference-before-paragraph".into());
            }
        }
    }
    if indeg.values().any(|v| *v > 1) {
        f.insert("shared-target".into());
    }
    // cycle through >= 2 notes among the reachable ones
    for k in &reach {
        // can k reach itself through another note?
        let mut stack: Vec<String> = edges(k).into_iter().filter_map(|e| e.0).filter(|t| t != k && src.contains_key(t)).collect();
        let mut seen: Vec<String> = vec![];
        while let Some(x) = stack.pop() {
            if x == *k {
                f.insert("block-reference-cycle".into());
                break;
            }
            if seen.contains(&x) {
                continue;
            }
            seen.push(x.clone());
            for (t, _, _, _) in edges(&x) {
                if let Some(t) = t {
                    if src.contains_key(&t) {
                        stack.push(t);
                    }
                }
            }
        }
    }
    if reach.len() < notes.len() {
        f.insert("unreachable-note".into());
    }
    if depth == 0 {
        f.insert("depth=0".into());
    }
    if pat.exhausted > 0 {
        f.insert("depth-exhausted".into());
    }
    if pat.expansions > 0 {
        f.insert("expands".into());
    }
    if pat.contained > 0 {
        f.insert("expands-inside-container".into());
    }
    for t in [6usize, 255] {
        if pat.nest > t {
            f.insert(format!("nesting>{}", t));
        }
    }
    if depth > 6 {
        f.insert("depth>6".into());
    }
    for t in [1024usize, 4096, 8192, 16384] {
        if pat.max_width >= t {
            f.insert(format!("siblings>={}", t));
        }
    }
    f.into_iter().collect()
}

// ====================================================================== engine

pub struct C17;

const STACK_MAIN: usize = 8 << 20;
const HORIZON_INPROC_S: u64 = 20;
const HORIZON_DEEP_S: u64 = 60;
/// expansions of at least this many blocks are run in their own subprocess (aborts are expected there)
const ISOLATE_BLOCKS: usize = 4000;

type Job = Box<dyn FnOnce() + Send + 'static>;

thread_local! {
    /// one helper thread (8 MiB stack, like the CLI's main thread) per calling thread; replaced after a hang
    static HELPER: std::cell::RefCell<Option<std::sync::mpsc::Sender<Job>>> = std::cell::RefCell::new(None);
}

fn spawn_helper() -> std::sync::mpsc::Sender<Job> {
    let (tx, rx) = std::sync::mpsc::channel::<Job>();
    std::thread::Builder::new()
        .stack_size(STACK_MAIN)
        .spawn(move || {
            while let Ok(job) = rx.recv() {
                job();
            }
        })
        .expect("spawn");
    tx
}

/// run `f` on the helper thread (main-thread-sized stack); None = not finished within the horizon
fn with_horizon<T: Send + 'static>(secs: u64, f: impl FnOnce() -> T + Send + 'static) -> Option<Result<T, PanicInfo>> {
    let (rtx, rrx) = std::sync::mpsc::channel();
    let job: Job = Box::new(move || {
        let r = guarded(f);
        let _ = rtx.send(r);
    });
    HELPER.with(|h| {
        let mut h = h.borrow_mut();
        if h.is_none() {
            *h = Some(spawn_helper());
        }
        if let Err(e) = h.as_ref().unwrap().send(job) {
            let tx = spawn_helper();
            let _ = tx.send(e.0);
            *h = Some(tx);
        }
    });
    match rrx.recv_timeout(std::time::Duration::from_secs(secs)) {
        Ok(r) => Some(r),
        Err(_) => {
            // the helper is stuck (or died): abandon it
            HELPER.with(|h| *h.borrow_mut() = None);
            None
        }
    }
}

fn parse_case(case: &str) -> Option<(u32, Vec<(String, Vec<String>)>)> {
    let rest = case.strip_prefix("d=")?;
    let (d, lib) = rest.split_once('|')?;
    let d: u32 = d.parse().ok()?;
    let notes = parse_lib(lib);
    if notes.is_empty() || d > 255 {
        return None;
    }
    Some((d, notes))
}

fn bucket(n: usize) -> &'static str {
    match n {
        0 => "0",
        1..=4 => "1-4",
        5..=16 => "5-16",
        17..=64 => "17-64",
        65..=512 => "65-512",
        _ => ">512",
    }
}

struct Prepared {
    depth: u32,
    notes: Vec<(String, Vec<String>)>,
    texts: HashMap<String, String>,
    root: String,
    feats: Vec<String>,
    pat: Rc<Pat>,
}

fn prepare(case: &str) -> Option<Prepared> {
    let (depth, notes) = parse_case(case)?;
    let texts = lib_texts(&notes);
    let root = notes[0].0.clone();
    let src: BTreeMap<String, SrcNote> = texts.iter().map(|(k, t)| (k.clone(), src_note(k, t))).collect();
    let mut r5 = R5 { src: &src, memo: HashMap::new(), next_id: 0 };
    let pat = r5.expand(&root, depth);
    let feats = graph_features(&notes, &src, &root, depth, &pat);
    Some(Prepared { depth, notes, texts, root, feats, pat })
}

/// directory layouts for the flat keys of the mini-syntax (keys not listed stay where they are)
const LAYOUTS: &[(&str, &[(&str, &str)])] = &[
    ("A", &[("1", "1"), ("2", "d/2"), ("3", "d/3"), ("4", "e/4")]),
    ("B", &[("1", "d/1"), ("2", "2"), ("3", "d/e/3"), ("4", "d/4")]),
    ("C", &[("1", "d/1"), ("2", "d/2"), ("3", "e/3"), ("4", "d/4")]),
];

fn real_squash(texts: &HashMap<String, String>, root: &str, depth: u8) -> Option<Result<String, PanicInfo>> {
    let texts = texts.clone();
    let root = root.to_string();
    with_horizon(HORIZON_INPROC_S, move || {
        let graph = Graph::import(&texts, opts(""));
        let g: &Graph = &graph;
        let key = Key::from_file_name(&root);
        let squashed = g.squash(&key, depth);
        let mut patch = Graph::new();
        patch.build_key_from_iter(&key, TreeIter::new(&squashed));
        patch.export_key(&key).unwrap()
    })
}

/// `dirs:<layout>|d=<depth>|<flat library>`: the same library with its notes moved into
/// directories (every reference url re-written relative to the directory of the note that holds
/// it) must squash to the same tree, link for link: a destination of the flat result, renamed by
/// the layout, is the note that the corresponding destination of the moved result names from the
/// root note's directory. A differential oracle: no expected value of its own.
fn run_dirs(rest: &str) -> CaseResult {
    let Some((layout, flat_case)) = rest.split_once('|') else {
        return CaseResult { outcome: "unparsable-case".into(), ..Default::default() };
    };
    let Some((depth, notes)) = parse_case(flat_case) else {
        return CaseResult { outcome: "unparsable-case".into(), ..Default::default() };
    };
    let map: &[(&str, &str)] = LAYOUTS.iter().find(|l| l.0 == layout).map(|l| l.1).unwrap_or(&[]);
    let rho = |k: &str| -> String { map.iter().find(|m| m.0 == k).map(|m| m.1.to_string()).unwrap_or(k.to_string()) };
    let flat = lib_texts(&notes);
    let root = notes[0].0.clone();
    // every key that occurs as a destination (defined or not)
    let mut dests: BTreeSet<String> = flat.keys().cloned().collect();
    for t in flat.values() {
        for l in oracle::scan_links(t) {
            if !oracle::is_external(&l.dest) {
                dests.insert(l.dest.clone());
            }
        }
    }
    let mut moved: HashMap<String, String> = HashMap::new();
    for (k, t) in &flat {
        let nk = rho(k);
        let dir = oracle::dir_of(&nk);
        let mut nt = t.clone();
        // two passes through a placeholder so that a new url is never re-written again
        for (i, d) in dests.iter().enumerate() {
            nt = nt.replace(&format!("]({})", d), &format!("](\u{1}{}\u{1})", i));
        }
        for (i, d) in dests.iter().enumerate() {
            nt = nt.replace(&format!("](\u{1}{}\u{1})", i), &format!("]({})", crate::libspace::rel_url(&dir, &rho(d))));
        }
        moved.insert(nk, nt);
    }
    let feats = vec!["notes-in-directories".to_string(), format!("layout={}", layout)];
    let head = format!("squash({}, depth {}) of {} against the same library laid out as {:?}", root, depth, trunc(&show_texts(&notes), 300), moved);
    let a = real_squash(&flat, &root, depth as u8);
    let b = real_squash(&moved, &rho(&root), depth as u8);
    let (a, b) = match (a, b) {
        (Some(Ok(a)), Some(Ok(b))) => (a, b),
        (Some(Ok(_)), Some(Err(pi))) => {
            return CaseResult { transitions: 2, nontrivial: true, outcome: "panic".into(), failures: vec![panic_failure(pi, &feats, &head)], ..Default::default() };
        }
        (Some(Ok(_)), None) => {
            return CaseResult {
                transitions: 2,
                nontrivial: true,
                outcome: "hang".into(),
                failures: vec![Failure { clause: "hang".into(), site: String::new(), features: feats, detail: format!("{}: no result within {} s", head, HORIZON_INPROC_S) }],
                ..Default::default()
            };
        }
        // the flat case itself fails: reported by the flat family
        _ => return CaseResult { transitions: 1, outcome: "flat-fails-skip".into(), ..Default::default() },
    };
    let root_dir = oracle::dir_of(&rho(&root));
    let fa = |ts: Vec<Tok>| -> Vec<Tok> { rename_dests(ts, &|d: &str| Some(rho(&oracle::strip_md(d)))) };
    let fb = |ts: Vec<Tok>| -> Vec<Tok> { rename_dests(ts, &|d: &str| oracle::resolve(&root_dir, d)) };
    let ta = oracle::map_toks(oracle::extract(&a), &fa);
    let tb = oracle::map_toks(oracle::extract(&b), &fb);
    let mut failures = vec![];
    if ta != tb {
        failures.push(Failure {
            clause: "layout".into(),
            site: String::new(),
            features: feats,
            detail: format!("{}: {}; flat result {:?}, moved result {:?}", head, oracle::first_diff(&ta, &tb), trunc(&a, 300), trunc(&b, 300)),
        });
    }
    let outcome = if failures.is_empty() { format!("dirs:same:{}", bucket(a.len() / 8)) } else { "dirs:differs".into() };
    CaseResult { transitions: 2, nontrivial: a.contains("]("), outcome, failures, ..Default::default() }
}

fn rename_dests(ts: Vec<Tok>, f: &dyn Fn(&str) -> Option<String>) -> Vec<Tok> {
    ts.into_iter()
        .map(|t| match t {
            Tok::Link(kind, dest, inner) => {
                let inner = rename_dests(inner, f);
                if oracle::is_external(&dest) {
                    Tok::Link(kind, dest, inner)
                } else {
                    Tok::Link(kind, f(&dest).unwrap_or_else(|| format!("?{}", dest)), inner)
                }
            }
            Tok::Image(d, inner) => Tok::Image(d, rename_dests(inner, f)),
            x => x,
        })
        .collect()
}

fn run_inproc(case: &str) -> CaseResult {
    match prepare(case) {
        Some(p) => run_prepared(p),
        None => CaseResult { outcome: "unparsable-case".into(), ..Default::default() },
    }
}

fn run_prepared(p: Prepared) -> CaseResult {
    let mut failures: Vec<Failure> = vec![];
    let nontrivial = p.pat.expansions > 0;
    let size = bucket(p.pat.leaves);
    if p.pat.leaves >= SIZE_CAP {
        return CaseResult { outcome: "expansion-too-large-skipped".into(), ..Default::default() };
    }
    // ---- the real code: import (C03 owns panics of the reader), squash, rebuild, export
    let texts = p.texts.clone();
    let root = p.root.clone();
    let depth = p.depth as u8;
    let imported = guarded(|| Graph::import(&texts, opts("")));
    let graph = match imported {
        Ok(g) => g,
        Err(_) => return CaseResult { transitions: 1, nontrivial, outcome: "panic-skip:import".into(), ..Default::default() },
    };
    let graph = std::sync::Arc::new(graph);
    let g2 = graph.clone();
    let root2 = root.clone();
    let res = with_horizon(HORIZON_INPROC_S, move || {
        let g: &Graph = &g2;
        let key = Key::from_file_name(&root2);
        let squashed = g.squash(&key, depth);
        let mut patch = Graph::new();
        patch.build_key_from_iter(&key, TreeIter::new(&squashed));
        let cli = patch.export_key(&key).unwrap();
        let gen = squashed.iter().to_markdown(&key.parent(), g.markdown_options());
        (cli, gen)
    });
    let head = format!("squash({}, depth {}) of {}", root, p.depth, trunc(&show_texts(&p.notes), 500));
    let (cli, gen) = match res {
        None => {
            failures.push(Failure {
                clause: "hang".into(),
                site: String::new(),
                features: p.feats.clone(),
                detail: format!("{}: no result within {} s", head, HORIZON_INPROC_S),
            });
            return CaseResult { transitions: 1, nontrivial, outcome: "hang".into(), failures, ..Default::default() };
        }
        Some(Err(pi)) => {
            failures.push(panic_failure(pi, &p.feats, &head));
            return CaseResult { transitions: 1, nontrivial, outcome: "panic".into(), failures, ..Default::default() };
        }
        Some(Ok(x)) => x,
    };
    // ---- oracle
    let mut want_flat: Vec<B> = vec![];
    flatten(&p.pat, &mut want_flat);
    if std::env::var("MC_SHOW").is_ok() {
        // development aid
        eprintln!("cli output: {:?}\nexpected: {}", cli, want_flat.iter().map(show_b).collect::<Vec<_>>().join(" "));
    }
    let mut outcome = "ok".to_string();
    for (route, out) in [("cli", &cli), ("generate", &gen)] {
        let got: Vec<B> = split_lists(oracle::canon_out(oracle::extract(out), false)).iter().map(wipe_deep).collect();
        // leaf blocks, first without, then with the containers they stand in
        let mut wl: Vec<(String, B)> = vec![];
        let mut gl: Vec<(String, B)> = vec![];
        leaves(&want_flat, "", &mut wl);
        leaves(&got, "", &mut gl);
        let mut ws: Vec<B> = wl.iter().map(|x| x.1.clone()).collect();
        let mut gs: Vec<B> = gl.iter().map(|x| x.1.clone()).collect();
        ws.sort();
        gs.sort();
        if ws != gs {
            // multiset difference
            let mut lost: Vec<&B> = vec![];
            let mut extra: Vec<&B> = vec![];
            let (mut i, mut j) = (0, 0);
            while i < ws.len() || j < gs.len() {
                if j >= gs.len() || (i < ws.len() && ws[i] < gs[j]) {
                    lost.push(&ws[i]);
                    i += 1;
                } else if i >= ws.len() || gs[j] < ws[i] {
                    extra.push(&gs[j]);
                    j += 1;
                } else {
                    i += 1;
                    j += 1;
                }
            }
            let lk: BTreeSet<&str> = lost.iter().map(|b| kind_b(b)).collect();
            let ek: BTreeSet<&str> = extra.iter().map(|b| kind_b(b)).collect();
            let site = format!("lost={}/extra={}@{}", lk.into_iter().collect::<Vec<_>>().join("+"), ek.into_iter().collect::<Vec<_>>().join("+"), route);
            outcome = format!("content:{}", site);
            failures.push(Failure {
                clause: "content".into(),
                site,
                features: p.feats.clone(),
                detail: format!(
                    "{} [{} route]: the result is not the expansion. lost: [{}] extra: [{}]\nexpected (one admissible order): {}\noutput: {:?}",
                    head,
                    route,
                    trunc(&lost.iter().map(|b| show_b(b)).collect::<Vec<_>>().join(", "), 300),
                    trunc(&extra.iter().map(|b| show_b(b)).collect::<Vec<_>>().join(", "), 300),
                    trunc(&want_flat.iter().map(show_b).collect::<Vec<_>>().join(" "), 600),
                    trunc(out, 800)
                ),
            });
            continue;
        }
        wl.sort();
        gl.sort();
        if wl != gl {
            let moved: Vec<String> = wl.iter().filter(|x| !gl.contains(x)).map(|x| format!("{} expected in {:?}", show_b(&x.1), x.0)).collect();
            let paths: BTreeSet<String> = wl.iter().filter(|x| !gl.contains(x)).map(|x| if x.0.is_empty() { "top".to_string() } else { x.0.clone() }).collect();
            let site = format!("expected-in={}@{}", paths.into_iter().collect::<Vec<_>>().join("+"), route);
            outcome = format!("container:{}", site);
            failures.push(Failure {
                clause: "container".into(),
                site,
                features: p.feats.clone(),
                detail: format!(
                    "{} [{} route]: same blocks, but not in the containers (Q quote, U bullet item) where the references stood: {}\nexpected (one admissible order): {}\ngot: {}\noutput: {:?}",
                    head,
                    route,
                    trunc(&moved.join(", "), 400),
                    trunc(&want_flat.iter().map(show_b).collect::<Vec<_>>().join(" "), 600),
                    trunc(&got.iter().map(show_b).collect::<Vec<_>>().join(" "), 600),
                    trunc(out, 800)
                ),
            });
            continue;
        }
        let mut memo: Memo = HashMap::new();
        if !(got.len() == p.pat.len && matches(&p.pat, &got, 0, &mut memo)) {
            let site = format!("arrangement@{}", route);
            outcome = format!("order:{}", site);
            failures.push(Failure {
                clause: "order".into(),
                site,
                features: p.feats.clone(),
                detail: format!(
                    "{} [{} route]: same blocks, but not `own blocks in source order + one contiguous expansion per reference`\nexpected (one admissible order): {}\ngot: {}\noutput: {:?}",
                    head,
                    route,
                    trunc(&want_flat.iter().map(show_b).collect::<Vec<_>>().join(" "), 600),
                    trunc(&got.iter().map(show_b).collect::<Vec<_>>().join(" "), 600),
                    trunc(out, 800)
                ),
            });
        }
    }
    let mut counters = BTreeMap::new();
    counters.insert("expansions".to_string(), p.pat.expansions);
    counters.insert("expected_blocks".to_string(), p.pat.leaves as u64);
    counters.insert("expansions_inside_containers".to_string(), p.pat.contained);
    let cyc = if p.feats.iter().any(|f| f == "block-reference-cycle" || f == "self-block-reference") { "cyclic" } else { "acyclic" };
    let exh = if p.pat.exhausted > 0 { "cut" } else { "full" };
    CaseResult { transitions: 3, nontrivial, outcome: format!("{}|{}|{}|size {}", outcome, cyc, exh, size), failures, counters }
}

// ---------------------------------------------------------------------- enumeration

fn seqs(symbols: &[String], max_len: usize) -> Vec<Vec<String>> {
    let mut out: Vec<Vec<String>> = vec![vec![]];
    let mut frontier: Vec<Vec<String>> = vec![vec![]];
    for _ in 0..max_len {
        let mut nf = vec![];
        for f in &frontier {
            for s in symbols {
                let mut x = f.clone();
                x.push(s.clone());
                nf.push(x);
            }
        }
        out.extend(nf.iter().cloned());
        frontier = nf;
    }
    out
}

/// concrete block tokens of a note: unique paragraph / heading texts per (note, position)
fn note_spec(key: usize, titled: bool, shape: &[String]) -> String {
    let mut toks: Vec<String> = vec![];
    if titled {
        toks.push(format!("#T{}", key));
    }
    for (i, s) in shape.iter().enumerate() {
        let c = (b'a' + i as u8) as char;
        match s.as_str() {
            "p" => toks.push(format!("p{}{}", key, c)),
            "##" => toks.push(format!("##S{}{}", key, c)),
            x if x.starts_with("Qq>") => toks.push(format!("Qq{}{}>{}", key, c, &x[3..])),
            x if x.starts_with("L>") => toks.push(format!("Li{}{}>{}", key, c, &x[2..])),
            x => toks.push(x.to_string()),
        }
    }
    format!("{}={}", key, toks.join(";"))
}

fn symbols(n: usize, sub_heading: bool) -> Vec<String> {
    let mut s = vec!["p".to_string()];
    for t in 1..=n {
        s.push(format!(">{}", t));
    }
    s.push(">9".into());
    if sub_heading {
        s.push("##".into());
    }
    s
}

/// references inside containers: quote with only the reference, quote with paragraph + reference,
/// bullet item whose second block is the reference; to every note, and (`dangling`) `Q>9`
fn container_symbols(n: usize, dangling: bool) -> Vec<String> {
    let mut s = vec![];
    for t in 1..=n {
        s.push(format!("Q>{}", t));
        s.push(format!("Qq>{}", t));
        s.push(format!("L>{}", t));
    }
    if dangling {
        s.push("Q>9".into());
    }
    s
}

/// block sequences of up to max_blocks blocks over `plain` in which exactly one block is from `special`
fn seqs_with_one(plain: &[String], special: &[String], max_blocks: usize) -> Vec<Vec<String>> {
    let mut out = vec![];
    for rest in seqs(plain, max_blocks.saturating_sub(1)) {
        for pos in 0..=rest.len() {
            for sp in special {
                let mut x = rest.clone();
                x.insert(pos, sp.clone());
                out.push(x);
            }
        }
    }
    out.sort_by(|a, b| (a.len(), a).cmp(&(b.len(), b)));
    out
}

/// notes (title optional) with exactly one container reference among up to max_blocks blocks
fn container_shapes(key: usize, n: usize, max_blocks: usize, dangling: bool) -> Vec<String> {
    let mut out = vec![];
    for shape in seqs_with_one(&symbols(n, false), &container_symbols(n, dangling), max_blocks) {
        for titled in [true, false] {
            out.push(note_spec(key, titled, &shape));
        }
    }
    out
}

fn note_shapes(key: usize, n: usize, max_blocks: usize, sub_heading: bool) -> Vec<String> {
    let mut out = vec![];
    for shape in seqs(&symbols(n, sub_heading), max_blocks) {
        for titled in [true, false] {
            out.push(note_spec(key, titled, &shape));
        }
    }
    out
}

/// every note reachable from note 1 through references (unreachable notes are covered with n = 2)
fn all_reachable(specs: &[&String]) -> bool {
    let n = specs.len();
    let mut seen = vec![false; n + 1];
    let mut stack = vec![1usize];
    seen[1] = true;
    while let Some(k) = stack.pop() {
        for tok in specs[k - 1].split_once('=').map(|x| x.1).unwrap_or("").split(';') {
            let target = tok.strip_prefix('>').or_else(|| container_ref(tok).map(|c| c.2));
            if let Some(t) = target.and_then(|t| t.parse::<usize>().ok()) {
                if t >= 1 && t <= n && !seen[t] {
                    seen[t] = true;
                    stack.push(t);
                }
            }
        }
    }
    (1..=n).all(|k| seen[k])
}

fn max_depth(tier: Tier) -> u32 {
    match tier {
        Tier::Quick => 4,
        Tier::Thorough => 6,
    }
}

pub const DEEP_DEPTHS: &[u32] = &[7, 8, 16, 64, 128, 254, 255];

fn deep_libs() -> Vec<String> {
    let mut v: Vec<String> = vec![
        // single self-loops, the reference in every position
        "1=>1".into(),
        "1=p1a;>1".into(),
        "1=>1;p1a".into(),
        "1=#T1;>1".into(),
        "1=#T1;p1a;>1".into(),
        "1=#T1;>1;p1a".into(),
        "1=#T1;p1a;>1;p1c".into(),
        "1=#T1;##S1a;>1".into(),
        "1=#T1;>1;##S1b".into(),
    ];
    // chains 1 -> 2 -> ... -> 256 -> (missing 257)
    for tmpl in ["#T{i};p{i};>{i+1}", "#T{i};>{i+1};p{i}", "p{i};>{i+1}", ">{i+1};p{i}", "#T{i};##S{i};>{i+1}"] {
        v.push(format!("{{i=1..256}}={}", tmpl));
    }
    // references inside containers: self-loops and chains (quotes / list items nest once per level)
    for l in ["1=#T1;Q>1", "1=Qq1a>1", "1=#T1;Li1a>1", "1=Li1a>1;p1b"] {
        v.push(l.to_string());
    }
    for tmpl in ["#T{i};Q>{i+1}", "Qq{i}>{i+1};p{i}", "#T{i};Li{i}>{i+1}"] {
        v.push(format!("{{i=1..256}}={}", tmpl));
    }
    // a chain that closes into a cycle of 3 (expansion stays linear in the depth)
    v.push("1=#T1;>2|2=#T2;p2b;>3|3=#T3;>1".into());
    v
}

/// the wide end inside the quantifier (depth <= 6): one note that references itself four times
fn wide_cases() -> Vec<String> {
    let mut v = vec![];
    for d in [5u32, 6] {
        for l in ["1=>1;>1;>1;>1", "1=p1a;>1;>1;>1;>1", "1=>1;>1;>1;>1;p1e", "1=#T1;>1;>1;>1;>1"] {
            v.push(format!("d={}|{}", d, l));
        }
    }
    v
}

impl Engine for C17 {
    fn id(&self) -> &'static str {
        "C17"
    }
    fn rule(&self) -> String {
        "every library of the bounded space x every depth is squashed through the code path of `iwe squash` (Graph::squash + build_key_from_iter(TreeIter) + export_key) and rendered the way the generate command does (tree.iter().to_markdown); both texts are parsed with the harness's own content extractor (R1) and compared with an independent recursive expansion (R5) of the R1 trees of the source texts: every block reference (a paragraph that is one internal link; at document level, inside a block quote, or as a non-first block of a list item) to an existing note is replaced, where it stands, by that note's content squashed with depth-1; dangling references and references at depth 0 stay links. Clauses: content (same multiset of leaf blocks), container (the same leaf blocks in the same quote / list-item containers: the expansion of a quoted reference stays inside the quote), order (at every level the own non-reference blocks in source order plus exactly one contiguous expansion or kept link per reference occurrence, at any position among its siblings); heading levels and link texts are presentation; a panic, an abort or no result within the horizon violates termination. Libraries: note 1 is squashed; a note = optional title + block sequence over {paragraph, reference to each note incl. itself, reference to a missing note, sub-heading, quote holding only a reference, quote holding a paragraph and a reference, bullet item whose second block is a reference}. Directory family (`dirs:<layout>|…`): every multi-note library is also laid out in directories (3 layouts; every reference url re-written relative to the directory of the note that holds it) and must squash to the same tree as the flat library, destination for destination (the flat destination renamed by the layout == the note the moved destination names from the root note's directory). non-trivial = at least one reference is expanded".into()
    }
    fn bound(&self, tier: Tier) -> String {
        match tier {
            Tier::Quick => format!("1 note: <= 3 blocks (incl. the container references Q>1, Qq>1, L>1, Q>9); 2 notes: note 1 <= 3 blocks, note 2 <= 2 blocks; 2 notes with exactly one container reference (Q>t, Qq>t, L>t, t in 1..2) in note 1 (<= 3 blocks) / in note 2 (<= 2 blocks, note 1 <= 2 blocks) / in both (<= 2 blocks each), other blocks over {{p, >1, >2, >9}}; 3 notes (all reachable from note 1): <= 2 blocks, no sub-headings; depth 0..=4; plus one note with four self-references at depths 5 and 6 ({} cases, expansions of up to 16384 blocks, own subprocess); plus {} self-loop/chain/3-cycle libraries (chains of 256 notes) at depths {:?} each in its own subprocess with a {} s horizon; every multi-note library also in 2 directory layouts at depth 2", wide_cases().len(), deep_libs().len(), DEEP_DEPTHS, HORIZON_DEEP_S),
            Tier::Thorough => format!("1 note: <= 4 blocks, and <= 3 blocks incl. the container references Q>1, Qq>1, L>1, Q>9; 2 notes: <= 3 blocks each; 2 notes with exactly one container reference (Q>t, Qq>t, L>t) in note 1 (<= 3 blocks) / in note 2 (<= 2 blocks, note 1 <= 3 blocks) / in both (<= 2 blocks each); 3 notes (all reachable): note 1 <= 2 blocks with sub-headings, others <= 2 blocks; 4 notes: every subset of the 16 edges (2^16 graphs, references in ascending order) x 2 layouts (titled `#T;p;refs`, untitled `refs;p`); depth 0..=6 (expansions of 4000 blocks or more in their own subprocess); plus {} self-loop/chain/3-cycle libraries (chains of 256 notes) at depths {:?} each in its own subprocess with a {} s horizon; every library of <= 3 notes also in 3 directory layouts at depths 1..=3", deep_libs().len(), DEEP_DEPTHS, HORIZON_DEEP_S),
        }
    }
    fn assumptions(&self) -> Vec<String> {
        vec![
            "where an expansion or a kept link sits among the non-reference siblings of its parent is a don't-care (the implementation hoists references behind the other children); only contiguity of each expansion and the source order of the non-reference blocks are demanded".into(),
            "heading levels, blank lines and the link text of kept references (refreshed from titles, C06) are presentation".into(),
            "the first block of a list item is the item's text, never a block reference; adjacent lists of the same kind merge when Markdown is read back, so list boundaries are not compared (every list is compared item by item)".into(),
            "in-process cases run on an 8 MiB thread (the CLI's main thread) with a 20 s horizon; a stack overflow kills the worker and is attributed by the runner (clause abort)".into(),
            "depths above 6 are explored only on graphs whose expansion is linear in the depth (single self-loops, chains, one 3-cycle)".into(),
            "panics of the Markdown reader during import are C03's and skipped here".into(),
        ]
    }
    fn enumerate(&self, tier: Tier, emit: &mut dyn FnMut(&str)) {
        let md = max_depth(tier);
        let mut libs: Vec<String> = vec![];
        let thorough = tier == Tier::Thorough;
        // 1 note
        for a in note_shapes(1, 1, if thorough { 4 } else { 3 }, true) {
            libs.push(a);
        }
        // 1 note, references inside containers: the full alphabet incl. Q>1, Qq>1, L>1, Q>9
        {
            let mut alpha = symbols(1, true);
            alpha.extend(container_symbols(1, true));
            for shape in seqs(&alpha, 3) {
                if shape.iter().any(|x| x.starts_with('Q') || x.starts_with('L')) {
                    for titled in [true, false] {
                        libs.push(note_spec(1, titled, &shape));
                    }
                }
            }
        }
        // 2 notes, exactly one container reference in note 1 / in note 2 / in both
        {
            let a_c = container_shapes(1, 2, 3, false);
            let b_plain = note_shapes(2, 2, 2, false);
            for x in &a_c {
                for y in &b_plain {
                    libs.push(format!("{}|{}", x, y));
                }
            }
            let a_plain = note_shapes(1, 2, if thorough { 3 } else { 2 }, false);
            let b_c = container_shapes(2, 2, 2, false);
            for x in &a_plain {
                for y in &b_c {
                    libs.push(format!("{}|{}", x, y));
                }
            }
            let a_c2 = container_shapes(1, 2, 2, false);
            for x in &a_c2 {
                for y in &b_c {
                    libs.push(format!("{}|{}", x, y));
                }
            }
        }
        // 2 notes
        {
            let a = note_shapes(1, 2, 3, true);
            let b = note_shapes(2, 2, if thorough { 3 } else { 2 }, true);
            for x in &a {
                for y in &b {
                    libs.push(format!("{}|{}", x, y));
                }
            }
        }
        // 3 notes
        {
            let a = note_shapes(1, 3, 2, thorough);
            let b = note_shapes(2, 3, 2, false);
            let c = note_shapes(3, 3, 2, false);
            for x in &a {
                for y in &b {
                    for z in &c {
                        if all_reachable(&[x, y, z]) {
                            libs.push(format!("{}|{}|{}", x, y, z));
                        }
                    }
                }
            }
        }
        for d in 0..=md {
            for l in &libs {
                emit(&format!("d={}|{}", d, l));
            }
        }
        // the same libraries with their notes moved into directories (differential, `run_dirs`)
        {
            let layouts: &[&str] = if thorough { &["A", "B", "C"] } else { &["A", "B"] };
            let depths: &[u32] = if thorough { &[1, 2, 3] } else { &[2] };
            for l in libs.iter().filter(|l| l.contains('|')) {
                for lay in layouts {
                    for d in depths {
                        emit(&format!("dirs:{}|d={}|{}", lay, d, l));
                    }
                }
            }
        }
        for c in wide_cases() {
            emit(&c);
        }
        // deep end
        for d in DEEP_DEPTHS {
            for l in deep_libs() {
                emit(&format!("d={}|{}", d, l));
            }
        }
        if thorough {
            // 4 notes: all 2^16 edge sets
            for layout in 0..2 {
                for code in 0u32..(1 << 16) {
                    let mut specs = vec![];
                    for k in 0..4 {
                        let m = (code >> (4 * k)) & 15;
                        let refs: Vec<String> = (0..4).filter(|t| m & (1 << t) != 0).map(|t| format!(">{}", t + 1)).collect();
                        let key = k + 1;
                        let mut toks: Vec<String> = vec![];
                        if layout == 0 {
                            toks.push(format!("#T{}", key));
                            toks.push(format!("p{}a", key));
                            toks.extend(refs);
                        } else {
                            toks.extend(refs);
                            toks.push(format!("p{}z", key));
                        }
                        specs.push(format!("{}={}", key, toks.join(";")));
                    }
                    let l = specs.join("|");
                    for d in 0..=md {
                        emit(&format!("d={}|{}", d, l));
                    }
                }
            }
        }
    }
    fn horizon_s(&self) -> Option<u64> {
        Some(HORIZON_DEEP_S + 30)
    }
    fn features(&self, case: &str) -> Vec<String> {
        if let Some(rest) = case.strip_prefix("dirs:") {
            return vec!["notes-in-directories".to_string(), format!("layout={}", rest.split('|').next().unwrap_or(""))];
        }
        let c = case.strip_prefix('!').unwrap_or(case);
        prepare(c).map(|p| p.feats).unwrap_or_default()
    }
    fn run(&self, case: &str, ctx: &Ctx) -> CaseResult {
        if let Some(inner) = case.strip_prefix('!') {
            return run_inproc(inner);
        }
        if let Some(rest) = case.strip_prefix("dirs:") {
            return run_dirs(rest);
        }
        let p = match prepare(case) {
            Some(p) => p,
            None => return CaseResult { outcome: "unparsable-case".into(), ..Default::default() },
        };
        let depth = p.depth;
        if depth <= 6 && p.pat.leaves < ISOLATE_BLOCKS {
            return run_prepared(p);
        }
        let feats = p.feats.clone();
        drop(p);
        // deep end: own subprocess with a horizon
        let r = run_case_subprocess("C17", ctx.tier, &format!("!{}", case), &ctx.active, Some(HORIZON_DEEP_S));
        let failures = match r.died {
            Some(why) => vec![Failure {
                clause: if why.contains("horizon") { "hang".into() } else { "abort".into() },
                site: String::new(),
                features: feats,
                detail: format!("squash at depth {} (own subprocess, {} s horizon): {}", depth, HORIZON_DEEP_S, why),
            }],
            None => r.failures,
        };
        let outcome = if failures.is_empty() { "deep:ok".to_string() } else { format!("deep:{}:{}", failures[0].clause, failures[0].site) };
        CaseResult { transitions: 3, nontrivial: true, outcome, failures, ..Default::default() }
    }
}
