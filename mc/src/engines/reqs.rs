//! C12 — every request gets exactly one response and the server keeps serving.
//!
//! Real `main_loop` on `Connection::memory()`, free-running. The hooks hand over the worker's
//! JoinHandle, so "no response" is decided without timeouts: after the worker thread is joined,
//! exactly one Response with the request's id must be in the channel. After every request a
//! liveness probe (formatting of a known note) must still give the reference answer, and
//! shutdown/exit must end main_loop with Ok.

use crate::core::*;
use crate::drive::*;
use iwes::hooks::{self, Event};
use iwes::{main_loop, ServerParams};
use liwe::model::config::Configuration;
use lsp_server::{Connection, Message, Notification, Request};
use serde_json::{json, Value};
use std::collections::{BTreeMap, HashMap};
use std::sync::mpsc::{channel, Receiver, Sender};
use std::sync::{Arc, Mutex};
use std::time::Duration;

fn lib(i: usize) -> HashMap<String, String> {
    match i {
        0 => lib_of(&[
            ("1", "# one\n\npara [two](2)\n\n[two](2)\n\n[gone](9)\n\n- item\n\n## sub\n\ntext\n"),
            ("2", "[one](1)\n\n# two\n"),
            ("d/3", "# three\n\n[x](../1)\n\n[y](4)\n"),
            ("d/4", "# four\n"),
        ]),
        _ => lib_of(&[("1", "# one\n\n- a\n- b\n\n[self](1)\n"), ("2", "plain\n")]),
    }
}

#[derive(Clone)]
pub struct Req {
    pub name: String,
    pub method: String,
    pub params: Value,
    pub notification: bool,
}

fn u(k: &str) -> String {
    format!("file://{}/{}.md", BASE, k)
}

pub fn requests(reduced: bool) -> Vec<Req> {
    let mut out: Vec<Req> = vec![];
    let mut add = |name: String, method: &str, params: Value| out.push(Req { name, method: method.into(), params, notification: false });
    let td = |uri: &str| json!({ "uri": uri });
    let pos = |l: u64, c: u64| json!({"line": l, "character": c});
    let uris: Vec<(String, String)> = vec![
        ("1".into(), u("1")),
        ("2".into(), u("2")),
        ("d/3".into(), u("d/3")),
        ("nope".into(), u("nope")),
        ("outside".into(), "file:///elsewhere/x.md".into()),
        ("encoded".into(), u("my%20note")),
    ];
    let uris: Vec<(String, String)> = if reduced { uris.into_iter().filter(|(n, _)| n == "1" || n == "d/3" || n == "nope").collect() } else { uris };
    let poss: Vec<(&str, u64, u64)> = if reduced {
        vec![("text", 0, 2), ("link", 2, 7), ("ref", 4, 2), ("dangling", 6, 2), ("past-eof", 99, 0)]
    } else {
        vec![("text", 0, 2), ("link", 2, 7), ("ref", 4, 2), ("dangling", 6, 2), ("item", 8, 2), ("sub", 10, 1), ("past-eol", 2, 500), ("past-eof", 99, 0), ("max", 4294967295, 0)]
    };
    for (un, uri) in &uris {
        add(format!("formatting({})", un), "textDocument/formatting", json!({"textDocument": td(uri), "options": {"tabSize": 2, "insertSpaces": true}}));
        add(format!("documentSymbol({})", un), "textDocument/documentSymbol", json!({"textDocument": td(uri)}));
        add(format!("inlayHint({})", un), "textDocument/inlayHint", json!({"textDocument": td(uri), "range": {"start": pos(0,0), "end": pos(10,0)}}));
        add(format!("references({})", un), "textDocument/references", json!({"textDocument": td(uri), "position": pos(0,0), "context": {"includeDeclaration": false}}));
        add(format!("completion({})", un), "textDocument/completion", json!({"textDocument": td(uri), "position": pos(0,0)}));
        if !reduced {
            add(format!("inlineValues({})", un), "textDocument/inlineValues", json!({"textDocument": td(uri), "range": {"start": pos(0,0), "end": pos(10,0)}, "context": {"frameId": 0, "stoppedLocation": {"start": pos(0,0), "end": pos(0,0)}}}));
        }
        for (pn, l, c) in &poss {
            add(format!("definition({},{})", un, pn), "textDocument/definition", json!({"textDocument": td(uri), "position": pos(*l, *c)}));
            add(format!("prepareRename({},{})", un, pn), "textDocument/prepareRename", json!({"textDocument": td(uri), "position": pos(*l, *c)}));
            for nn in if reduced { vec!["fresh", "2"] } else { vec!["fresh", "2", "d/fresh"] } {
                add(format!("rename({},{},{})", un, pn, nn), "textDocument/rename", json!({"textDocument": td(uri), "position": pos(*l, *c), "newName": nn}));
            }
            add(format!("codeAction({},{})", un, pn), "textDocument/codeAction", json!({"textDocument": td(uri), "range": {"start": pos(*l, *c), "end": pos(*l, *c)}, "context": {"diagnostics": []}}));
            if !reduced {
                add(format!("codeAction({},{},only)", un, pn), "textDocument/codeAction", json!({"textDocument": td(uri), "range": {"start": pos(*l, *c), "end": pos(*l, *c)}, "context": {"diagnostics": [], "only": ["refactor.extract.section"]}}));
            }
        }
    }
    add("workspace/symbol()".into(), "workspace/symbol", json!({"query": ""}));
    add("workspace/symbol(two)".into(), "workspace/symbol", json!({"query": "two"}));
    let kinds: Vec<&str> = if reduced {
        vec!["refactor.extract.section", "refactor.inline.reference.section", "custom.nope"]
    } else {
        vec![
            "refactor.extract.section", "refactor.extract.subsections", "refactor.inline.reference.section", "refactor.inline.reference.quote",
            "refactor.rewrite.list.type", "refactor.rewrite.list.section", "refactor.rewrite.section.list", "custom.nope",
        ]
    };
    for kind in kinds {
        let datas: Vec<(&str, Value)> = if reduced {
            vec![("id1", json!(1)), ("id5", json!(5)), ("huge", json!(9999)), ("absent", Value::Null)]
        } else {
            vec![("id1", json!(1)), ("id3", json!(3)), ("id5", json!(5)), ("id7", json!(7)), ("id9", json!(9)), ("huge", json!(9999)), ("str", json!("x")), ("neg", json!(-1)), ("absent", Value::Null)]
        };
        for (dn, data) in datas {
            let mut a = json!({"title": "t", "kind": kind});
            if !data.is_null() {
                a["data"] = data;
            }
            add(format!("resolve({},{})", kind, dn), "codeAction/resolve", a);
        }
    }
    add("resolve(no-kind)".into(), "codeAction/resolve", json!({"title": "t", "data": 1}));
    add("completionItem/resolve".into(), "completionItem/resolve", json!({"label": "x"}));
    add("executeCommand(generate)".into(), "workspace/executeCommand", json!({"command": "generate", "arguments": [{"new_key": "n", "prompt_key": "1", "target_key": "2"}]}));
    add("executeCommand(bogus)".into(), "workspace/executeCommand", json!({"command": "bogus", "arguments": []}));
    add("hover".into(), "textDocument/hover", json!({"textDocument": td(&u("1")), "position": pos(0, 0)}));
    add("formatting(bad-params)".into(), "textDocument/formatting", json!({"bogus": true}));
    add("$/unknown".into(), "$/unknown", json!({}));
    // the lifecycle request in the middle of a session: what follows it still has to be answered
    add("shutdown".into(), "shutdown", Value::Null);
    // an edit notification, so that sequences contain stale code-action ids / changed texts
    out.push(Req {
        name: "didChange(1)".into(),
        method: "textDocument/didChange".into(),
        params: json!({"textDocument": {"uri": u("1"), "version": 2}, "contentChanges": [{"text": "# changed\n\n[two](2)\n"}]}),
        notification: true,
    });
    out.push(Req {
        name: "didChange(nope)".into(),
        method: "textDocument/didChange".into(),
        params: json!({"textDocument": {"uri": u("nope"), "version": 2}, "contentChanges": [{"text": "- ```\n"}]}),
        notification: true,
    });
    // well-typed but without any change: the handler's `first().unwrap()` panics while the loop
    // holds the server for writing (the panic is contained; the server must go on serving)
    out.push(Req {
        name: "didChange(no-changes)".into(),
        method: "textDocument/didChange".into(),
        params: json!({"textDocument": {"uri": u("1"), "version": 3}, "contentChanges": []}),
        notification: true,
    });
    out
}

enum Ev {
    Loop(bool),
    Spawned(std::thread::JoinHandle<bool>),
}

struct Session {
    client: Connection,
    rx: Receiver<Ev>,
    server: Option<std::thread::JoinHandle<bool>>,
    next_id: i32,
}

impl Session {
    fn start(state: HashMap<String, String>) -> Session {
        let (tx, rx): (Sender<Ev>, Receiver<Ev>) = channel();
        let txm = Mutex::new(tx);
        hooks::install(Some(Arc::new(move |e: Event| {
            let tx = txm.lock().unwrap().clone();
            match e {
                Event::LoopHandled { panicked } => {
                    let _ = tx.send(Ev::Loop(panicked));
                }
                Event::WorkerSpawned { handle, .. } => {
                    let _ = tx.send(Ev::Spawned(handle));
                }
                _ => {}
            }
        })));
        let (conn, client) = Connection::memory();
        let server = std::thread::spawn(move || {
            main_loop(conn, ServerParams { state: Some(state), sequential_ids: Some(true), client_name: None, configuration: Configuration::default(), base_path: BASE.into() }).is_ok()
        });
        Session { client, rx, server: Some(server), next_id: 0 }
    }
    fn wait(&self) -> Ev {
        self.rx.recv_timeout(Duration::from_secs(60)).expect("reqs harness: no event within 60 s")
    }
    /// returns (responses with this id, error responses, worker panicked, other messages from the server)
    fn request(&mut self, method: &str, params: Value) -> (usize, usize, bool, Vec<Value>, Vec<Message>) {
        self.next_id += 1;
        let id = self.next_id;
        // (a loop that has ended takes no more messages: the request then simply has no response)
        if self.client.sender.send(Message::Request(Request { id: id.into(), method: method.into(), params })).is_err() {
            return (0, 0, false, vec![], vec![]);
        }
        let mut h = None;
        let mut loop_done = false;
        while h.is_none() || !loop_done {
            // the loop hands every request to a worker; one that it serves itself (no worker within
            // 3 s of "handled") or never handles is judged by its responses alone
            let patience = if loop_done { Duration::from_secs(2) } else { Duration::from_secs(5) };
            match self.rx.recv_timeout(patience) {
                Ok(Ev::Spawned(hh)) => h = Some(hh),
                Ok(Ev::Loop(_)) => {
                    loop_done = true;
                    // (the spawn hook fires on the loop thread before "handled": no worker will come)
                    if h.is_none() {
                        break;
                    }
                }
                Err(_) => break,
            }
        }
        let joined = match h {
            Some(h) => h.join(),
            None => Ok(true),
        };
        let mut n = 0;
        let mut errs = 0;
        let mut results = vec![];
        let mut other = vec![];
        while let Ok(msg) = self.client.receiver.try_recv() {
            match msg {
                Message::Response(r) if r.id == id.into() => {
                    n += 1;
                    if r.error.is_some() {
                        errs += 1;
                    }
                    results.push(r.result.unwrap_or(Value::Null));
                }
                m => other.push(m),
            }
        }
        (n, errs, joined.is_err(), results, other)
    }
    fn notify(&mut self, method: &str, params: Value) -> bool {
        // (a loop that has ended takes no more messages)
        if self.client.sender.send(Message::Notification(Notification { method: method.into(), params })).is_err() {
            return false;
        }
        match self.rx.recv_timeout(Duration::from_secs(10)) {
            Ok(Ev::Loop(p)) => p,
            Ok(_) => panic!("reqs harness: unexpected event"),
            Err(_) => false,
        }
    }
    fn finish(mut self) -> (bool, bool) {
        let (n, _, _, _, _) = self.request("shutdown", Value::Null);
        let _ = self.client.sender.send(Message::Notification(Notification { method: "exit".into(), params: Value::Null }));
        let ok = self.server.take().unwrap().join().unwrap_or(false);
        hooks::install(None);
        (n == 1, ok)
    }
}

pub struct C12;

/// case = "<library>|<message name>;;<message name>..." (names from `requests(false)`)
fn parse_case(case: &str) -> (usize, Vec<Req>) {
    let (l, rest) = case.split_once('|').expect("C12 case");
    let all = requests(false);
    let msgs = rest
        .split(";;")
        .filter(|s| !s.is_empty())
        .map(|n| all.iter().find(|r| r.name == n).unwrap_or_else(|| panic!("unknown message {}", n)).clone())
        .collect();
    (l.parse().unwrap(), msgs)
}

impl Engine for C12 {
    fn id(&self) -> &'static str {
        "C12"
    }
    fn rule(&self) -> String {
        "request alphabet = every method the server handles (plus unknown methods and malformed params) x {URIs of loaded notes, unknown file, outside the library, percent-encoded} x {position in text, on a link, on a block reference, on a dangling reference, in a list item, past end of line, past end of file, u32::MAX} x rename names {free, taken, sub-directory} x code-action kinds x resolve data {ids, stale/huge id, non-number, negative, absent}, plus didChange notifications (so later ids are stale; one of them without any change, whose handler panics while the server is held for writing); all single messages and all ordered pairs on 2 libraries, executed on the real main_loop. Oracle after each request: worker joined (JoinHandle from the hooks), exactly one Response with its id; liveness probe answers like a fresh server; shutdown answered and exit ends main_loop with Ok. non-trivial = the request reached a handler (any response or a handler panic)".into()
    }
    fn bound(&self, tier: Tier) -> String {
        match tier {
            Tier::Quick => format!("singles over the full alphabet ({} messages) and ordered pairs over the reduced alphabet ({} messages), 2 libraries", requests(false).len(), requests(true).len()),
            Tier::Thorough => format!("singles and ordered pairs over the full alphabet ({} messages), triples over the reduced alphabet ({}), 2 libraries", requests(false).len(), requests(true).len()),
        }
    }
    fn assumptions(&self) -> Vec<String> {
        vec!["parameters are well-typed LSP values from the stated alphabet; malformed JSON-RPC framing is lsp-server's business".into()]
    }
    fn enumerate(&self, tier: Tier, emit: &mut dyn FnMut(&str)) {
        let full: Vec<String> = requests(false).into_iter().map(|r| r.name).collect();
        let red: Vec<String> = requests(true).into_iter().map(|r| r.name).collect();
        for l in 0..2 {
            for a in &full {
                emit(&format!("{}|{}", l, a));
            }
            match tier {
                Tier::Quick => {
                    for a in &red {
                        for b in &red {
                            emit(&format!("{}|{};;{}", l, a, b));
                        }
                    }
                }
                Tier::Thorough => {
                    for a in &full {
                        for b in &full {
                            emit(&format!("{}|{};;{}", l, a, b));
                        }
                    }
                    // triples: a didChange between two requests of the reduced alphabet
                    for a in &red {
                        for c in red.iter().filter(|n| n.starts_with("didChange")) {
                            for b in &red {
                                emit(&format!("{}|{};;{};;{}", l, a, c, b));
                            }
                        }
                    }
                }
            }
        }
    }
    fn features(&self, case: &str) -> Vec<String> {
        let (_, msgs) = parse_case(case);
        msgs.iter().map(|r| format!("req:{}", r.name)).collect()
    }
    fn run(&self, case: &str, _ctx: &Ctx) -> CaseResult {
        let (l, msgs) = parse_case(case);
        let state = lib(l);
        let mut failures: Vec<Failure> = vec![];
        let mut tr = 0u64;
        let mut counters: BTreeMap<String, u64> = BTreeMap::new();
        let mut sess = Session::start(state.clone());
        let mut cur = state.clone();
        let mut reached = false;
        let probe_params = json!({"textDocument": {"uri": u("2")}, "options": {"tabSize": 2, "insertSpaces": true}});
        let feats: Vec<String> = msgs.iter().map(|r| format!("req:{}", r.name)).collect();
        for (step, r) in msgs.iter().enumerate() {
            tr += 1;
            take_global_panics();
            if r.notification {
                let panicked = sess.notify(&r.method, r.params.clone());
                let uri = r.params["textDocument"]["uri"].as_str().unwrap();
                let key = uri.strip_prefix(&format!("file://{}/", BASE)).unwrap().strip_suffix(".md").unwrap().to_string();
                if !panicked {
                    if let Some(t) = r.params["contentChanges"][0]["text"].as_str() {
                        cur.insert(key, t.to_string());
                    }
                }
                // (a notification whose text the builder rejects is C03's finding, not C12's)
            } else {
                let (n, errs, wpanic, _results, _other) = sess.request(&r.method, r.params.clone());
                *counters.entry("requests".into()).or_insert(0) += 1;
                if errs > 0 {
                    *counters.entry("error_responses".into()).or_insert(0) += 1;
                }
                if n > 0 || wpanic {
                    reached = true;
                }
                if n != 1 {
                    let site = take_global_panics().last().map(|p| panic_site(p)).unwrap_or_default();
                    let mut f = feats.clone();
                    f.push(format!("method:{}", r.method));
                    f.push(format!("at:{}", r.name));
                    failures.push(Failure {
                        clause: "responses".into(),
                        site,
                        features: f,
                        detail: format!("step {} {}: {} responses (worker thread panicked: {})", step, r.name, n, wpanic),
                    });
                }
            }
            // liveness probe
            let (n, _, _, results, _) = sess.request("textDocument/formatting", probe_params.clone());
            let want = guarded(|| format_on(&server(&cur, ""), "2")).ok();
            let got = results.get(0).and_then(|v| v[0]["newText"].as_str().map(|s| s.to_string()));
            if n != 1 || got != want {
                failures.push(Failure {
                    clause: "liveness".into(),
                    site: String::new(),
                    features: feats.clone(),
                    detail: format!("after step {} {} the probe formatting(2) got {} responses: {:?}, a fresh server answers {:?}", step, r.name, n, got, want),
                });
                break;
            }
        }
        let (shutdown_ok, exit_ok) = sess.finish();
        if !shutdown_ok || !exit_ok {
            failures.push(Failure { clause: "shutdown".into(), site: String::new(), features: feats.clone(), detail: format!("shutdown answered: {}, main_loop returned Ok: {}", shutdown_ok, exit_ok) });
        }
        let outcome = if failures.is_empty() { "ok".to_string() } else { format!("{}:{}", failures[0].clause, failures[0].site) };
        CaseResult { transitions: tr, nontrivial: reached, outcome, failures, counters }
    }
}
