//! C13 — positions sent and received refer to the right place in the editor's text.
//!
//! Space: one link in a host block, preceded on its own line by {nothing, ASCII, 2-byte, astral,
//! tab} text and preceded by earlier lines with {LF, CRLF} endings / non-ASCII text / front-matter;
//! every (line, UTF-16 character) position of the note and two lines past its end.
//! Oracle: R3 (link spans from pulldown's offset iterator) + R4 (byte offset -> line / UTF-16 column).

use crate::core::*;
use crate::drive::*;
use crate::oracle::*;
use lsp_types::*;
use pulldown_cmark::{Event, Parser, Tag, TagEnd};
use std::collections::BTreeMap;

pub const BEFORES: &[(&str, &str)] = &[
    ("none", ""),
    ("lf", "x\n\n"),
    ("crlf", "x\r\n\r\n"),
    ("crlf2", "x\r\ny\r\n\r\n"),
    ("nonascii-line", "é😀\n\n"),
    ("front-matter", "---\nk: v\n---\n\n"),
    ("crlf-list", "- i\r\n- j\r\n\r\n"),
    ("heading-lf", "# h\n\n"),
];

pub const PREFIXES: &[(&str, &str)] = &[("none", ""), ("ascii", "ab "), ("two-byte", "é "), ("astral", "😀 "), ("tab", "a\tb "), ("emph-nonascii", "*é* ")];

/// thorough only: more ways in which bytes, chars, UTF-16 units and rendered text differ before the link
pub const PREFIXES_MORE: &[(&str, &str)] = &[
    ("combining", "e\u{301} "),
    ("zwj-emoji", "👩\u{200d}👧 "),
    ("two-astral", "😀😀 "),
    ("cjk", "漢字 "),
    ("rtl", "שלום "),
    ("strong-astral", "**😀** "),
    ("code-nonascii", "`é` "),
    ("inline-html", "<b>é</b> "),
    ("escape", "\\* "),
    ("entity", "&amp; &#233; "),
    ("nbsp", "a\u{a0}b "),
];

fn prefix_text(name: &str) -> &'static str {
    PREFIXES.iter().chain(PREFIXES_MORE.iter()).find(|x| x.0 == name).unwrap().1
}

pub const LINKS: &[(&str, &str)] = &[
    ("reg", "[t](2)"),
    ("reg-nonascii-text", "[t é](2)"),
    ("reg-title", "[t](2 \"x\")"),
    ("empty", "[](2)"),
    ("wiki", "[[2]]"),
    ("wikip", "[[2|t]]"),
    ("reg-long", "[some text](d/3)"),
    // the link text runs over a line break (the link may be the last thing in its block)
    ("reg-wrapped", "[some\ntext](2)"),
    // destinations with characters outside the BMP: the returned range counts UTF-16 units
    ("wiki-astral", "[[n😀]]"),
    ("wikip-astral", "[[n😀|t]]"),
    ("reg-astral-dest", "[t](n😀)"),
];

pub const HOSTS: &[&str] = &[
    "para", "item", "heading", "nested-item", "quote", "block-ref", "quoted-item", "quoted-block-ref", "quoted-heading",
    // the link on the middle line of a block that spans three lines (soft breaks): positions on the
    // other lines share the link's columns
    "wrapped-para", "wrapped-item", "wrapped-quote",
];

fn host_wrap(host: &str, s: &str) -> String {
    match host {
        "para" => format!("{} tail\n", s),
        "item" => format!("- {} tail\n", s),
        "heading" => format!("# {} tail\n", s),
        "nested-item" => format!("- a\n  - {} tail\n", s),
        "quote" => format!("> {} tail\n", s),
        "block-ref" => format!("{}\n", s),
        "quoted-item" => format!("> - first\n> - {} tail\n> - last\n", s),
        "quoted-block-ref" => format!("> before\n>\n> {}\n>\n> after\n", s),
        "quoted-heading" => format!("> # {} tail\n>\n> text\n", s),
        "wrapped-para" => format!("lead words that are long enough to pass the link\n{} tail\nmore words that are long enough to pass the link\n", s),
        "wrapped-item" => format!("- lead words that are long enough to pass the link\n  {} tail\n  more words that are long enough to pass the link\n", s),
        "wrapped-quote" => format!("> lead words that are long enough to pass the link\n> {} tail\n> more words that are long enough to pass the link\n", s),
        _ => unreachable!(),
    }
}

fn parse(case: &str) -> (String, String, String, String, bool) {
    let mut m: BTreeMap<&str, &str> = BTreeMap::new();
    for p in case.split('|') {
        if let Some((k, v)) = p.split_once('=') {
            m.insert(k, v);
        }
    }
    (m["before"].to_string(), m["prefix"].to_string(), m["link"].to_string(), m["host"].to_string(), m.get("after").map(|v| *v == "crlf").unwrap_or(false))
}

fn build(case: &str) -> String {
    let (b, p, l, h, after_crlf) = parse(case);
    let before = BEFORES.iter().find(|x| x.0 == b).unwrap().1;
    let prefix = prefix_text(&p);
    let link = LINKS.iter().find(|x| x.0 == l).unwrap().1;
    let prefix = if h == "block-ref" || h == "quoted-block-ref" { "" } else { prefix };
    let mut body = host_wrap(&h, &format!("{}{}", prefix, link));
    if case.contains("|bare=1") {
        body = body.replace(") tail\n", ")\n");
    }
    // what follows the host block (blocks below the link take part in every position look-up)
    let tail = case.split('|').find_map(|p| p.strip_prefix("tail=")).unwrap_or("");
    body.push_str(match tail {
        "empty-bullet" => "\n-\n",
        "empty-ordered" => "\n1.\n",
        "empty-bullet-then-text" => "\n-\n\nend\n",
        "code" => "\n```\ncode\n```\n",
        "table" => "\n| a |\n|---|\n| b |\n",
        "quote" => "\n> quoted\n",
        "nothing" => "",
        _ => "\n## last\n\nend\n",
    });
    if after_crlf {
        body = body.replace('\n', "\r\n");
    }
    format!("{}{}", before, body)
}

fn features(case: &str) -> Vec<String> {
    let (b, p, l, h, after_crlf) = parse(case);
    let mut f = vec![format!("host={}", h), format!("link={}", l)];
    if b.starts_with("crlf") || after_crlf {
        f.push("crlf-before".into());
    }
    if !prefix_text(&p).is_ascii() && h != "block-ref" && h != "quoted-block-ref" {
        f.push("non-ascii-before-link-on-line".into());
    }
    if prefix_text(&p).chars().any(|c| c as u32 > 0xffff) && h != "block-ref" && h != "quoted-block-ref" {
        f.push("astral-before-link-on-line".into());
    }
    if l.starts_with("wiki") {
        f.push("wiki-link".into());
    }
    if l == "reg-title" {
        f.push("link-title-attr".into());
    }
    if l == "reg-nonascii-text" {
        f.push("non-ascii-in-link-text".into());
    }
    if l == "empty" {
        f.push("empty-link-text".into());
    }
    if h.starts_with("quote") {
        f.push("link-in-quote".into());
    }
    if h == "block-ref" || h == "quoted-block-ref" {
        f.push("block-reference".into());
    }
    f
}

/// byte span of the destination inside a link's source text
fn dest_span(src: &str, l: &LinkOcc) -> Option<(usize, usize)> {
    let s = &src[l.span.0..l.span.1];
    let off = if l.kind.starts_with("wiki") {
        s.find("[[").map(|i| i + 2)
    } else {
        s.rfind("](").map(|i| i + 2)
    }?;
    if s[off..].starts_with(&l.dest) {
        Some((l.span.0 + off, l.span.0 + off + l.dest.len()))
    } else {
        None
    }
}

/// lines of every heading that is not inside a list item (quotes are transparent: a heading in a quote
/// is a section too) and (first line, last line) of every list
fn block_lines(src: &str) -> (Vec<usize>, Vec<(usize, usize)>) {
    let mut headings = vec![];
    let mut lists = vec![];
    let mut item_depth = 0;
    for (ev, r) in Parser::new_ext(src, md_options()).into_offset_iter() {
        match ev {
            Event::Start(Tag::Item) => item_depth += 1,
            Event::End(TagEnd::Item) => item_depth -= 1,
            Event::Start(Tag::Heading { .. }) if item_depth == 0 => headings.push(line_of(src, r.start)),
            Event::Start(Tag::List(_)) => {
                let end = r.end.min(src.len());
                // the range of a list may include trailing blank lines: take its last non-blank character
                let trimmed = src[r.start..end].trim_end_matches(|c: char| c.is_whitespace() || c == '>').len();
                let last = r.start + trimmed.saturating_sub(1);
                lists.push((line_of(src, r.start), line_of(src, last)));
            }
            _ => {}
        }
    }
    (headings, lists)
}

pub struct C13;

impl Engine for C13 {
    fn id(&self) -> &'static str {
        "C13"
    }
    fn rule(&self) -> String {
        "documents = (lines before: none / LF / CRLF / non-ASCII / front-matter / CRLF list / heading) x (text before the link on its line: none / ASCII / 2-byte / astral / tab / emphasised non-ASCII) x 11 link forms (one whose text runs over a line break, also as the last thing in its block; three whose destination has a character outside the BMP) x 12 hosts (single-line blocks, quoted ones, and three-line blocks with the link on the middle line), optionally with CRLF endings throughout; for every (line, UTF-16 character) of the note and two lines past its end: go-to-definition, prepareRename and rename must act iff the position is inside the link's source span (position == end of span is a don't-care), the prepareRename range must be a well-formed range inside the link span whose ends fall between characters (UTF-16 units, never inside a surrogate pair), every symbol line must be the heading's real line, and section/list code actions must be offered exactly on heading lines / on lines of lists. non-trivial = the document contains CRLF or non-ASCII text before the link".into()
    }
    fn bound(&self, tier: Tier) -> String {
        match tier {
            Tier::Quick => format!("{} befores x {} prefixes x {} links x {} hosts x {{LF, CRLF}} after", BEFORES.len(), PREFIXES.len(), LINKS.len(), HOSTS.len()),
            Tier::Thorough => format!("{} befores x {} prefixes (also combining marks, ZWJ emoji, CJK, RTL, inline code / HTML, escapes and entities before the link) x {} links x {} hosts x {{LF, CRLF}} after", BEFORES.len(), PREFIXES.len() + PREFIXES_MORE.len(), LINKS.len(), HOSTS.len()),
        }
    }
    fn assumptions(&self) -> Vec<String> {
        vec![
            "link spans come from pulldown-cmark's offset iterator; columns are UTF-16 code units as the LSP specifies by default".into(),
            "a position exactly at the end of the link span is a don't-care".into(),
        ]
    }
    fn enumerate(&self, tier: Tier, emit: &mut dyn FnMut(&str)) {
        let afters: &[&str] = &["lf", "crlf"];
        let prefixes: Vec<&(&str, &str)> = if tier == Tier::Thorough { PREFIXES.iter().chain(PREFIXES_MORE.iter()).collect() } else { PREFIXES.iter().collect() };
        for a in afters {
            for b in BEFORES {
                for p in &prefixes {
                    for l in LINKS {
                        for h in HOSTS {
                            if l.0 == "reg-wrapped" && (h.contains("heading")) {
                                continue;
                            }
                            emit(&format!("before={}|prefix={}|link={}|host={}|after={}", b.0, p.0, l.0, h, a));
                            // ... and with nothing after the link in its block
                            if l.0 == "reg-wrapped" {
                                emit(&format!("before={}|prefix={}|link={}|host={}|after={}|bare=1", b.0, p.0, l.0, h, a));
                            }
                        }
                        // other blocks below the host (one link form, one prefix are enough here)
                        if l.0 == "reg" && (p.0 == "none" || p.0 == "two-byte") {
                            for h in HOSTS {
                                for t in ["empty-bullet", "empty-ordered", "empty-bullet-then-text", "code", "table", "quote", "nothing"] {
                                    emit(&format!("before={}|prefix={}|link={}|host={}|after={}|tail={}", b.0, p.0, l.0, h, a, t));
                                }
                            }
                        }
                    }
                }
            }
        }
    }
    fn features(&self, case: &str) -> Vec<String> {
        features(case)
    }
    fn run(&self, case: &str, _ctx: &Ctx) -> CaseResult {
        let text = build(case);
        let feats = features(case);
        let lib = lib_of(&[("1", &text), ("2", "# two\n"), ("d/3", "# three\n"), ("n😀", "# astral\n")]);
        let srv = match guarded(|| server(&lib, "")) {
            Ok(s) => s,
            Err(_) => return CaseResult { outcome: "panic-skip".into(), ..Default::default() },
        };
        let occ = scan_links(&text);
        if occ.len() != 1 {
            return CaseResult { outcome: "not-one-link".into(), ..Default::default() };
        }
        let l = &occ[0];
        let (sl, sc) = pos16(&text, l.span.0);
        let (el, ec) = pos16(&text, l.span.1);
        let dspan = dest_span(&text, l).map(|(a, b)| (pos16(&text, a), pos16(&text, b)));
        let lines: Vec<&str> = text.split('\n').collect();
        let mut failures: Vec<Failure> = vec![];
        let mut tr = 0u64;
        let mut push = |clause: &str, site: &str, detail: String| {
            if !failures.iter().any(|f: &Failure| f.clause == clause && f.site == site) {
                failures.push(Failure { clause: clause.into(), site: site.into(), features: feats.clone(), detail });
            }
        };
        let td = TextDocumentIdentifier { uri: uri("1") };
        for line in 0..lines.len() + 2 {
            let len16 = lines.get(line).map(|x| x.trim_end_matches('\r').encode_utf16().count()).unwrap_or(0);
            for ch in 0..len16 + 2 {
                // positions are ordered (line, character); the span may run over several lines. Past
                // the end of a line the editor clamps: such positions are judged only on the span's
                // first and last line
                let pos = (line, ch);
                let inside = pos >= (sl, sc) && pos < (el, ec) && ch <= len16;
                let outside = pos < (sl, sc) || pos > (el, ec);
                let tdp = TextDocumentPositionParams { text_document: td.clone(), position: Position::new(line as u32, ch as u32) };
                tr += 3;
                let def = guarded(|| {
                    srv.handle_goto_definition(GotoDefinitionParams {
                        text_document_position_params: tdp.clone(),
                        work_done_progress_params: Default::default(),
                        partial_result_params: Default::default(),
                    })
                });
                if let Ok(r) = &def {
                    let acted = matches!(r, GotoDefinitionResponse::Scalar(_));
                    if inside && !acted {
                        push("definition", "missed", format!("definition at ({},{}) inside the link span ({},{})..({},{}) did nothing; text {:?}", line, ch, sl, sc, el, ec, text));
                    }
                    if outside && acted {
                        push("definition", "ghost", format!("definition at ({},{}) outside the link span ({},{})..({},{}) acted; text {:?}", line, ch, sl, sc, el, ec, text));
                    }
                    if inside {
                        if let GotoDefinitionResponse::Scalar(loc) = r {
                            let want = resolve("", &l.dest).unwrap_or_default();
                            // (a non-ASCII key is percent-encoded in the URI: compare URIs as well)
                            if key_of_uri(&loc.uri) != want && loc.uri != uri(&want) {
                                push("definition", "target", format!("definition at ({},{}) went to {} instead of {}", line, ch, loc.uri, want));
                            }
                        }
                    }
                }
                let pr = guarded(|| srv.handle_prepare_rename(tdp.clone()));
                if let Ok(r) = &pr {
                    let acted = r.is_some();
                    if inside && !acted {
                        push("prepareRename", "missed", format!("prepareRename at ({},{}) inside the link span ({},{})..({},{}) returned nothing; text {:?}", line, ch, sl, sc, el, ec, text));
                    }
                    if outside && acted {
                        push("prepareRename", "ghost", format!("prepareRename at ({},{}) outside the link span ({},{})..({},{}) answered; text {:?}", line, ch, sl, sc, el, ec, text));
                    }
                    if inside {
                        if let (Some(PrepareRenameResponse::RangeWithPlaceholder { range, placeholder }), Some(((dl, dc), (d2l, d2c)))) = (r, dspan) {
                            let got = ((range.start.line as usize, range.start.character as usize), (range.end.line as usize, range.end.character as usize));
                            // the statement asks that the rename range names where the link is: it must be a
                            // well-formed range on the link's line inside the link's span (the destination's
                            // exact columns are reported in the detail only)
                            let _ = (dl, dc, d2l, d2c);
                            let well_formed = got.0 <= got.1 && got.0 >= (sl, sc) && got.1 <= (el, ec);
                            // "positions being counted as the LSP specifies": both ends are offsets in UTF-16
                            // units that fall between two characters of their line, never inside a surrogate pair
                            let on_boundary = |(ln, c): (usize, usize)| {
                                lines.get(ln).map_or(false, |s| {
                                    let mut u = 0;
                                    let mut ok = c == 0;
                                    for chr in s.chars() {
                                        u += chr.len_utf16();
                                        ok = ok || u == c;
                                    }
                                    ok
                                })
                            };
                            if well_formed && !(on_boundary(got.0) && on_boundary(got.1)) {
                                push("prepareRename", "range-boundary", format!("prepareRename at ({},{}) returned range {:?} (placeholder {:?}) with an end that is not between two characters of its line (UTF-16 units); the destination {:?} is at {:?}; text {:?}", line, ch, got, placeholder, l.dest, ((dl, dc), (d2l, d2c)), text));
                            }
                            if !well_formed {
                                push("prepareRename", "range", format!("prepareRename at ({},{}) returned range {:?} (placeholder {:?}), the destination {:?} is at {:?}; text {:?}", line, ch, got, placeholder, l.dest, ((dl, dc), (d2l, d2c)), text));
                            }
                        }
                    }
                }
                let rn = guarded(|| srv.handle_rename(RenameParams { text_document_position: tdp.clone(), new_name: "fresh".into(), work_done_progress_params: Default::default() }));
                if let Ok(Ok(r)) = &rn {
                    let acted = r.is_some();
                    if inside && !acted {
                        push("rename", "missed", format!("rename at ({},{}) inside the link span did nothing; text {:?}", line, ch, text));
                    }
                    if outside && acted {
                        push("rename", "ghost", format!("rename at ({},{}) outside the link span ({},{})..({},{}) produced an edit; text {:?}", line, ch, sl, sc, el, ec, text));
                    }
                }
            }
        }
        // lines of symbols
        tr += 1;
        if let Ok(WorkspaceSymbolResponse::Flat(syms)) = guarded(|| {
            srv.handle_workspace_symbols(WorkspaceSymbolParams { query: "last".into(), work_done_progress_params: Default::default(), partial_result_params: Default::default() })
        }) {
            let want = text.find("## last").map(|o| line_of(&text, o));
            for s in syms.iter().filter(|s| s.name.ends_with("last") && key_of_uri(&s.location.uri) == "1") {
                if Some(s.location.range.start.line as usize) != want {
                    push("symbol-line", "", format!("workspace symbol {:?} at line {} but the heading is at line {:?}; text {:?}", s.name, s.location.range.start.line, want, text));
                }
            }
        }
        // code actions per line
        let (headings, lists) = block_lines(&text);
        for line in 0..lines.len() {
            tr += 1;
            if let Ok(acts) = guarded(|| {
                srv.handle_code_action(&CodeActionParams {
                    text_document: td.clone(),
                    range: Range::new(Position::new(line as u32, 0), Position::new(line as u32, 0)),
                    context: Default::default(),
                    work_done_progress_params: Default::default(),
                    partial_result_params: Default::default(),
                })
            }) {
                let kinds: Vec<String> = acts
                    .iter()
                    .filter_map(|a| if let CodeActionOrCommand::CodeAction(c) = a { c.kind.clone().map(|k| k.as_str().to_string()) } else { None })
                    .collect();
                let is_heading = headings.contains(&line);
                let in_list = lists.iter().any(|(a, b)| line >= *a && line <= *b);
                let offers_section = kinds.iter().any(|k| k == "refactor.rewrite.section.list");
                let offers_list = kinds.iter().any(|k| k == "refactor.rewrite.list.type");
                // a block reference (also inside a quote) offers "inline quote" on its own line
                // (a link that is the whole first paragraph of a list item is the item's text, not a reference)
                let is_ref_line = l.alone_in_para && !l.in_table && !parse(case).3.contains("item") && line >= sl && line <= el && lib.contains_key(resolve("", &l.dest).as_deref().unwrap_or("?"));
                let offers_inline = kinds.iter().any(|k| k == "refactor.inline.reference.quote");
                if is_ref_line != offers_inline {
                    push("action-line", "reference", format!("line {} is{} the line of a block reference but 'inline quote' is{} offered there (kinds {:?}); text {:?}", line, if is_ref_line { "" } else { " not" }, if offers_inline { "" } else { " not" }, kinds, text));
                }
                if is_heading != offers_section {
                    push("action-line", "section", format!("line {} is{} a heading line but 'section to list' is{} offered there (kinds {:?}); text {:?}", line, if is_heading { "" } else { " not" }, if offers_section { "" } else { " not" }, kinds, text));
                }
                // blank lines inside a (loose) list belong to no block: nothing must be offered there
                // a line that holds nothing but a list marker (an empty item) has no content to act on:
                // like a blank line it is outside the must-offer direction
                let blank = lines
                    .get(line)
                    .map(|l| {
                        let t = l.trim().trim_start_matches('>').trim();
                        t.is_empty() || matches!(t, "-" | "*" | "+") || t.strip_suffix('.').or(t.strip_suffix(')')).map(|b| !b.is_empty() && b.chars().all(|c| c.is_ascii_digit())).unwrap_or(false)
                    })
                    .unwrap_or(true);
                if (in_list && !blank && !offers_list) || (!in_list && offers_list) {
                    push("action-line", "list", format!("line {} is{} inside a list but 'change list type' is{} offered there (kinds {:?}); text {:?}", line, if in_list { "" } else { " not" }, if offers_list { "" } else { " not" }, kinds, text));
                }
            }
        }
        let nontrivial = feats.iter().any(|f| f == "crlf-before" || f == "non-ascii-before-link-on-line");
        let outcome = if failures.is_empty() { "ok".to_string() } else { failures.iter().map(|f| format!("{}:{}", f.clause, f.site)).collect::<Vec<_>>().join(",") };
        CaseResult { transitions: tr, nontrivial, outcome, failures, ..Default::default() }
    }
}
