//! C09 (extract / inline refactorings) and C10 (list / section conversions).
//!
//! Space: the note under edit is every block-grammar forest (sections, paragraphs, code, tables,
//! block references to an existing / missing / the same note / a note in a sub-directory, lists and
//! quotes containing them) up to a size bound, in the root and in a sub-directory, formatted first;
//! every line of it is offered to textDocument/codeAction on the real Server and every offered
//! action of the property's kinds is resolved; the WorkspaceEdit is applied by R9 and the edited
//! library is compared with the original through the R1 content extractor and the R3 resolver.

use crate::core::*;
use crate::drive::*;
use crate::edits;
use crate::oracle::*;
use crate::space::{self, N};
use iwes::router::server::Server;
use lsp_types::*;
use std::collections::{BTreeMap, HashMap};

const K_EXTRACT: &str = "refactor.extract.section";
const K_EXTRACT_SUB: &str = "refactor.extract.subsections";
const K_INLINE_SECTION: &str = "refactor.inline.reference.section";
const K_INLINE_QUOTE: &str = "refactor.inline.reference.quote";
const K_LIST_TYPE: &str = "refactor.rewrite.list.type";
const K_LIST_TO_SECTIONS: &str = "refactor.rewrite.list.section";
const K_SECTION_TO_LIST: &str = "refactor.rewrite.section.list";

fn owners() -> Vec<&'static str> {
    vec!["1", "d/5"]
}

fn leaves_for(owner: &str, rich: bool) -> Vec<N> {
    let mut v = vec![N::P, N::H(1), N::H(2), N::H(3), N::CF, N::T];
    if owner == "1" {
        v.extend([N::RefUrl("2"), N::RefUrl("9"), N::RefUrl("1"), N::RefUrl("d/3")]);
    } else {
        v.extend([N::RefUrl("../2"), N::RefUrl("9"), N::RefUrl("5"), N::RefUrl("3")]);
    }
    if rich {
        v.push(N::R);
    }
    v
}

fn base_lib() -> BTreeMap<String, String> {
    let mut m = BTreeMap::new();
    m.insert("2".to_string(), "# two\n\nbody two\n\n## sub two\n\nmore two\n".to_string());
    m.insert("d/3".to_string(), "# three\n\n[back](../2)\n\ntext three [inl](../2) end\n".to_string());
    // notes with a link in every kind of place (heading, item, quote, table header and body cell,
    // ordered item): inlined across directories every one of them has to be re-written
    for (k, two) in [("d/4", "../2"), ("6", "2")] {
        m.insert(
            k.to_string(),
            "# rich [h](@2)\n\n- item [i](@2)\n\n> quoted [q](@2)\n\n| head [th](@2) |\n|---|\n| cell [tc](@2) |\n\n## sub rich\n\n1. ordered [o](@2)\n".replace("@2", two),
        );
    }
    m
}

fn parse_case(case: &str) -> (String, String) {
    let (a, b) = case.split_once("|text=").expect("action case");
    (a.trim_start_matches("owner=").to_string(), b.replace("\\n", "\n"))
}

fn enumerate_notes(tier: Tier, c10: bool, emit: &mut dyn FnMut(&str)) {
    let (n, depth) = match tier {
        Tier::Quick => (4, 2),
        Tier::Thorough => (5, 2),
    };
    for owner in owners() {
        let leaves = if c10 {
            // list / section conversions: one reference kind is enough, but both directories
            vec![N::P, N::H(1), N::H(2), N::H(3), N::CF, N::T, N::RefUrl(if owner == "1" { "2" } else { "../2" }), N::R]
        } else {
            leaves_for(owner, false)
        };
        for f in space::forests_over(n, depth, &leaves, false) {
            if f.is_empty() {
                continue;
            }
            let text = space::render(&f, &space::Style::default());
            emit(&format!("owner={}|text={}", owner, text.replace('\n', "\\n")));
        }
    }
    if !c10 {
        // a reference / a sub-section at the sixth heading level (inlined or extracted content goes
        // one level further down)
        for owner in owners() {
            let two = if owner == "1" { "2" } else { "../2" };
            for tail in [format!("[two]({})\n", two), format!("text\n\n[two]({})\n", two), "text\n".to_string()] {
                let text = format!("# a\n\n## b\n\n### c\n\n#### d\n\n##### e\n\n###### f\n\n{}", tail);
                emit(&format!("owner={}|text={}", owner, text.replace('\n', "\\n")));
                let text5 = format!("# a\n\n## b\n\n### c\n\n#### d\n\n##### e\n\n{}", tail);
                emit(&format!("owner={}|text={}", owner, text5.replace('\n', "\\n")));
            }
        }
        // references to the notes with a link in every kind of place, from both directories
        for owner in owners() {
            for rich in ["d/4", "6"] {
                let url = match (owner, rich) {
                    ("1", r) => r.to_string(),
                    (_, "d/4") => "4".to_string(),
                    _ => "../6".to_string(),
                };
                for text in [
                    format!("# top\n\n[r]({})\n", url),
                    format!("# top\n\ntext\n\n[r]({})\n\n## sub\n\nbody\n", url),
                    format!("# top\n\n## mid\n\n[r]({})\n\ntail\n", url),
                    format!("[r]({})\n\n# top\n\ntext\n", url),
                ] {
                    emit(&format!("owner={}|text={}", owner, text.replace('\n', "\\n")));
                }
            }
        }
        // a section with three own blocks, one of them of each kind in turn, before its sub-sections
        // (the reference left by extract / the text put in by inline go behind the own blocks)
        let kinds: &[(&str, &str)] = &[
            ("rule", "---\n"),
            ("code", "```\ncode\n```\n"),
            ("table", "| a |\n|---|\n| b |\n"),
            ("quote", "> quoted\n"),
            ("list", "- item\n"),
            ("olist", "1. item\n"),
            ("ref", "[two](@2)\n"),
        ];
        for owner in owners() {
            let two = if owner == "1" { "2" } else { "../2" };
            for (_, k) in kinds {
                let k = k.replace("@2", two);
                for pos in 0..3 {
                    let mut own: Vec<String> = vec!["first own\n".into(), "second own\n".into()];
                    own.insert(pos, k.clone());
                    for subs in ["## sub\n\nbody\n", "## sub\n\nbody\n\n## next\n\nmore\n", "## sub\n\n[two](@2)\n"] {
                        let text = format!("# top\n\n{}\n{}", own.join("\n"), subs.replace("@2", two));
                        emit(&format!("owner={}|text={}", owner, text.replace('\n', "\\n")));
                    }
                }
            }
        }
    }
    if c10 {
        // runs of adjacent blocks of one kind and wide containers (source markers as written: the
        // action formats the note first)
        let mut doc = |t: &str| {
            if !t.contains("<!--") {
                emit(&format!("owner=1|text={}", t.replace('\n', "\\n")));
            }
        };
        space::sibling_run_docs(&mut doc);
        space::wide_container_docs(&mut doc);
    }
}

fn state_of(lib: &BTreeMap<String, String>) -> HashMap<String, String> {
    lib.iter().map(|(k, v)| (k.clone(), v.clone())).collect()
}

fn actions_at(srv: &Server, key: &str, line: u32) -> Result<Vec<CodeAction>, PanicInfo> {
    guarded(|| {
        srv.handle_code_action(&CodeActionParams {
            text_document: TextDocumentIdentifier { uri: uri(key) },
            range: Range::new(Position::new(line, 0), Position::new(line, 0)),
            context: Default::default(),
            work_done_progress_params: Default::default(),
            partial_result_params: Default::default(),
        })
        .into_iter()
        .filter_map(|a| if let CodeActionOrCommand::CodeAction(c) = a { Some(c) } else { None })
        .collect()
    })
}

fn kind_of(a: &CodeAction) -> String {
    a.kind.clone().map(|k| k.as_str().to_string()).unwrap_or_default()
}

/// canonical leaf strings of a note in document order; links by what they resolve to
fn leaf_strings(key: &str, text: &str, fold_headings: bool) -> Vec<String> {
    fn toks(ts: &[Tok], dir: &str) -> String {
        ts.iter()
            .map(|t| match t {
                Tok::W(w) => w.clone(),
                Tok::Code(c) => format!("`{}`", c),
                Tok::Link(kind, dest, inner) => {
                    if is_external(dest) {
                        format!("<{}:{}>", dest, toks(inner, dir))
                    } else {
                        let target = resolve(dir, dest).unwrap_or_else(|| format!("?{}", dest));
                        if kind == "wikip" {
                            format!("<@{}|{}>", target, toks(inner, dir))
                        } else {
                            format!("<@{}>", target)
                        }
                    }
                }
                Tok::Image(d, inner) => format!("<img {}:{}>", d, toks(inner, dir)),
            })
            .collect::<Vec<_>>()
            .join(" ")
    }
    fn walk(bs: &[B], dir: &str, fold: bool, out: &mut Vec<String>) {
        for b in bs {
            match b {
                B::Para(t) => out.push(format!("P:{}", toks(t, dir))),
                B::Heading(t) => out.push(format!("{}:{}", if fold { "P" } else { "H" }, toks(t, dir))),
                B::Code(l, t) => out.push(format!("C:{}:{}", l, t)),
                B::Rule => out.push("R".into()),
                B::Table(c) => out.push(format!("T:{}", c.iter().map(|x| toks(x, dir)).collect::<Vec<_>>().join("|"))),
                B::Meta(m) => out.push(format!("M:{}", m)),
                B::Quote(v) => walk(v, dir, fold, out),
                B::List(_, items) => {
                    for i in items {
                        walk(i, dir, fold, out)
                    }
                }
            }
        }
    }
    let mut out = vec![];
    walk(&canon_out(extract(text), false), &dir_of(key), fold_headings, &mut out);
    out
}

fn multiset(lib: &BTreeMap<String, String>, fold: bool) -> BTreeMap<String, i64> {
    let mut m = BTreeMap::new();
    for (k, t) in lib {
        for s in leaf_strings(k, t, fold) {
            *m.entry(s).or_insert(0) += 1;
        }
    }
    m
}

fn ms_diff(a: &BTreeMap<String, i64>, b: &BTreeMap<String, i64>) -> Vec<(String, i64)> {
    // b - a
    let mut d = vec![];
    let mut keys: Vec<&String> = a.keys().chain(b.keys()).collect();
    keys.sort();
    keys.dedup();
    for k in keys {
        let x = b.get(k).copied().unwrap_or(0) - a.get(k).copied().unwrap_or(0);
        if x != 0 {
            d.push((k.clone(), x));
        }
    }
    d
}

struct Prepared {
    owner: String,
    lib: BTreeMap<String, String>,
    feats: Vec<String>,
}

fn prepare(case: &str) -> Option<Prepared> {
    let (owner, raw) = parse_case(case);
    let mut lib = base_lib();
    lib.insert(owner.clone(), raw.clone());
    // start from the formatted original so that line numbers are those of the text the user sees
    let fmt = p4(&state_of(&lib), &owner, "").ok()?;
    lib.insert(owner.clone(), fmt.clone());
    // features of the text as written and of the formatted text the actions run on
    let mut feats = doc_features(&fmt);
    feats.extend(doc_features(&raw));
    for l in scan_links(&fmt) {
        if l.alone_in_para && !is_external(&l.dest) {
            match resolve(&dir_of(&owner), &l.dest) {
                Some(k) if k == owner => feats.push("self-block-reference".into()),
                Some(k) if lib.contains_key(&k) => {
                    if dir_of(&k) != dir_of(&owner) {
                        feats.push("block-reference-across-directories".into());
                    }
                }
                _ => feats.push("dangling-block-reference".into()),
            }
        }
    }
    if dir_of(&owner) != "" {
        feats.push("owner-in-subdir".into());
    }
    feats.sort();
    feats.dedup();
    Some(Prepared { owner, lib, feats })
}

fn first_heading(text: &str) -> Option<(u8, String)> {
    heading_levels(text).into_iter().find(|h| h.2 == 0).map(|h| (h.0, h.1))
}

// ====================================================================== C09

pub struct C09;

impl Engine for C09 {
    fn id(&self) -> &'static str {
        "C09"
    }
    fn rule(&self) -> String {
        "notes = every block forest up to the bound over {paragraph, #, ##, ###, fenced code, table, block reference to an existing note / a missing note / the note itself / a note in another directory, quote, bullet and ordered lists}, as note 1 (root) and as d/5 (sub-directory), plus references from both to two notes (d/4, 6) that carry a link in a heading, a list item, a quote, a table header cell, a table body cell and an ordered item, formatted first; every line is sent to codeAction and every offered extract-section / extract-sub-sections / inline-section / inline-quote action is resolved on the real Server; the edit is applied by R9. Oracle: created keys are fresh; extracted notes start with a level-1 heading; the multiset of content leaves over all notes (links compared by the note they resolve to from where they stand) changes exactly by +1 reference per extracted section (titled with its heading) resp. -1 reference per inlined note, the inlined note is deleted; extracting the first sub-section and inlining it again gives the formatted original byte-for-byte. non-trivial = at least one action of these kinds was offered".into()
    }
    fn bound(&self, tier: Tier) -> String {
        match tier {
            Tier::Quick => "forests <= 4 nodes, nesting <= 2, owners {1, d/5}".into(),
            Tier::Thorough => "forests <= 5 nodes, nesting <= 2, owners {1, d/5}".into(),
        }
    }
    fn assumptions(&self) -> Vec<String> {
        vec!["content leaves are compared through the R1 extractor: heading levels, list markers and the position of blocks inside their note are presentation".into()]
    }
    fn enumerate(&self, tier: Tier, emit: &mut dyn FnMut(&str)) {
        enumerate_notes(tier, false, emit);
    }
    fn features(&self, case: &str) -> Vec<String> {
        prepare(case).map(|p| p.feats).unwrap_or_default()
    }
    fn run(&self, case: &str, _ctx: &Ctx) -> CaseResult {
        let Some(p) = prepare(case) else {
            return CaseResult { outcome: "panic-skip".into(), ..Default::default() };
        };
        let Ok(srv) = guarded(|| server_prod(&state_of(&p.lib), "")) else {
            return CaseResult { outcome: "panic-skip".into(), ..Default::default() };
        };
        let text = p.lib[&p.owner].clone();
        let nlines = text.split('\n').count() as u32;
        let before = multiset(&p.lib, false);
        let mut failures: Vec<Failure> = vec![];
        let mut tr = 0u64;
        let mut offered = 0u64;
        let heads = heading_levels(&text);
        let mut push = |clause: &str, site: &str, detail: String| {
            if !failures.iter().any(|f: &Failure| f.clause == clause && f.site == site) {
                failures.push(Failure { clause: clause.into(), site: site.into(), features: p.feats.clone(), detail });
            }
        };
        for line in 0..nlines {
            tr += 1;
            let acts = match actions_at(&srv, &p.owner, line) {
                Ok(a) => a,
                Err(_) => continue,
            };
            for a in acts {
                let kind = kind_of(&a);
                if ![K_EXTRACT, K_EXTRACT_SUB, K_INLINE_SECTION, K_INLINE_QUOTE].contains(&kind.as_str()) {
                    continue;
                }
                offered += 1;
                tr += 1;
                let ctx = format!("{} at line {} of {} {:?}", kind, line, p.owner, text);
                let resolved = match guarded(|| srv.handle_code_action_resolve(&a)) {
                    Ok(r) => r,
                    Err(pn) => {
                        push("no-answer", &panic_site(&pn), format!("resolve panicked at {}: {}; {}", pn.0, trunc(&pn.1, 100), ctx));
                        continue;
                    }
                };
                let Some(edit) = resolved.edit.clone() else {
                    push("no-edit", &kind, format!("offered action resolved without an edit; {}", ctx));
                    continue;
                };
                let mut lib2 = p.lib.clone();
                let applied = edits::apply(&mut lib2, &edit);
                if !applied.problems.is_empty() {
                    push("edit-shape", &kind, format!("edit cannot be applied cleanly: {:?}; {}", applied.problems, ctx));
                    continue;
                }
                let after = multiset(&lib2, false);
                if kind == K_EXTRACT || kind == K_EXTRACT_SUB {
                    let new_keys: Vec<String> = lib2.keys().filter(|k| !p.lib.contains_key(*k)).cloned().collect();
                    if new_keys.is_empty() || applied.created.iter().any(|k| p.lib.contains_key(k)) {
                        push("fresh-key", &kind, format!("created {:?}, existing notes {:?}; {}", applied.created, p.lib.keys().collect::<Vec<_>>(), ctx));
                        continue;
                    }
                    let mut expect = before.clone();
                    for nk in &new_keys {
                        if dir_of(nk) != dir_of(&p.owner) {
                            push("new-key-directory", &kind, format!("new note {} is not next to {}; {}", nk, p.owner, ctx));
                        }
                        match first_heading(&lib2[nk]) {
                            Some((1, _)) => {}
                            other => push("extracted-top-level", &kind, format!("extracted note {} starts with {:?}: {:?}; {}", nk, other, lib2[nk], ctx)),
                        }
                        *expect.entry(format!("P:<@{}>", nk)).or_insert(0) += 1;
                        // the reference is titled with the heading of the extracted section
                        let title = first_heading(&lib2[nk]).map(|h| h.1).unwrap_or_default();
                        let refs: Vec<LinkOcc> = scan_links(&lib2[&p.owner]).into_iter().filter(|l| resolve(&dir_of(&p.owner), &l.dest).as_deref() == Some(nk.as_str())).collect();
                        if refs.len() != 1 {
                            push("reference-count", &kind, format!("{} references to the new note {} in the source: {:?}; {}", refs.len(), nk, lib2[&p.owner], ctx));
                        } else if refs[0].text.split_whitespace().collect::<Vec<_>>().join(" ") != title {
                            push("reference-title", &kind, format!("reference to {} is titled {:?}, the extracted heading is {:?}; {}", nk, refs[0].text, title, ctx));
                        }
                    }
                    if after != expect {
                        push("content", &kind, format!("content leaves changed by {:?} beyond the new reference(s); after: {:?}; {}", ms_diff(&expect, &after), lib2, ctx));
                    }
                    // round trip for the first sub-section of a section
                    if kind == K_EXTRACT && new_keys.len() == 1 {
                        let idx = heads.iter().filter(|h| h.2 == 0).position(|h| {
                            let off = text.match_indices(&format!("{} {}", "#".repeat(h.0 as usize), h.1)).map(|m| line_of(&text, m.0)).collect::<Vec<_>>();
                            off.contains(&(line as usize))
                        });
                        let tops: Vec<&(u8, String, usize)> = heads.iter().filter(|h| h.2 == 0).collect();
                        let is_first_sub = match idx {
                            Some(i) if i > 0 => tops[i].0 > tops[i - 1].0,
                            _ => false,
                        };
                        if is_first_sub {
                            tr += 2;
                            if let Ok(srv2) = guarded(|| server_prod(&state_of(&lib2), "")) {
                                let t2 = &lib2[&p.owner];
                                let ref_line = scan_links(t2).into_iter().find(|l| resolve(&dir_of(&p.owner), &l.dest).as_deref() == Some(new_keys[0].as_str())).map(|l| line_of(t2, l.span.0));
                                if let Some(rl) = ref_line {
                                    let back = actions_at(&srv2, &p.owner, rl as u32).unwrap_or_default().into_iter().find(|a| kind_of(a) == K_INLINE_SECTION);
                                    match back {
                                        None => push("round-trip", "inline-not-offered", format!("after extracting, 'inline section' is not offered on the reference line {} of {:?}; {}", rl, t2, ctx)),
                                        Some(b) => match guarded(|| srv2.handle_code_action_resolve(&b)) {
                                            Ok(r2) => {
                                                let mut lib3 = lib2.clone();
                                                if let Some(e2) = r2.edit {
                                                    edits::apply(&mut lib3, &e2);
                                                }
                                                if lib3 != p.lib {
                                                    push("round-trip", "differs", format!("extract then inline gives {:?}, the formatted original is {:?}; {}", lib3.get(&p.owner), text, ctx));
                                                }
                                            }
                                            Err(pn) => push("round-trip", "panic", format!("inline after extract panicked at {}; {}", pn.0, ctx)),
                                        },
                                    }
                                }
                            }
                        }
                    }
                } else {
                    // inline
                    let removed: Vec<String> = p.lib.keys().filter(|k| !lib2.contains_key(*k)).cloned().collect();
                    if removed.len() != 1 {
                        push("inlined-note-deleted", &kind, format!("notes removed: {:?} (exactly the inlined note is expected); {}", removed, ctx));
                        continue;
                    }
                    let t = &removed[0];
                    let mut expect = before.clone();
                    *expect.entry(format!("P:<@{}>", t)).or_insert(0) -= 1;
                    expect.retain(|_, v| *v != 0);
                    if after != expect {
                        push("content", &kind, format!("content leaves changed by {:?} beyond the removed reference; after: {:?}; {}", ms_diff(&expect, &after), lib2, ctx));
                    }
                    if lib2.keys().any(|k| !p.lib.contains_key(k)) {
                        push("extra-note", &kind, format!("inline created a note; {}", ctx));
                    }
                }
            }
        }
        let outcome = if failures.is_empty() { format!("ok:{}", offered.min(9)) } else { failures.iter().map(|f| format!("{}:{}", f.clause, f.site)).collect::<Vec<_>>().join(",") };
        CaseResult { transitions: tr, nontrivial: offered > 0, outcome, failures, ..Default::default() }
    }
}

// ====================================================================== C10

pub struct C10;

fn block_line_kinds(text: &str) -> Vec<(usize, usize, &'static str)> {
    // (first line, last line, kind) of top-level blocks
    use pulldown_cmark::{Event, Parser, Tag, TagEnd};
    let mut out = vec![];
    let mut depth = 0;
    for (ev, r) in Parser::new_ext(text, md_options()).into_offset_iter() {
        let start_kind: Option<&'static str> = match &ev {
            Event::Start(Tag::List(_)) => Some("list"),
            Event::Start(Tag::Heading { .. }) => Some("heading"),
            Event::Start(Tag::Paragraph) => Some("para"),
            Event::Start(Tag::CodeBlock(_)) => Some("code"),
            Event::Start(Tag::BlockQuote(_)) => Some("quote"),
            Event::Start(Tag::Table(_)) => Some("table"),
            Event::Rule => Some("rule"),
            _ => None,
        };
        if let Some(k) = start_kind {
            if depth == 0 {
                let end = r.start + text[r.start..r.end.min(text.len())].trim_end().len();
                out.push((line_of(text, r.start), line_of(text, end.saturating_sub(1).max(r.start)), k));
            }
        }
        match ev {
            Event::Start(Tag::List(_)) | Event::Start(Tag::BlockQuote(_)) | Event::Start(Tag::Item) | Event::Start(Tag::Table(_)) => depth += 1,
            Event::End(TagEnd::List(_)) | Event::End(TagEnd::BlockQuote(_)) | Event::End(TagEnd::Item) | Event::End(TagEnd::Table) => depth -= 1,
            _ => {}
        }
    }
    out
}

impl Engine for C10 {
    fn id(&self) -> &'static str {
        "C10"
    }
    fn rule(&self) -> String {
        "notes = every block forest up to the bound over {paragraph, #, ##, ###, fenced code, table, block reference, rule, quote, bullet and ordered lists (nested / mixed)}, formatted first; every line is sent to codeAction and every offered section-to-list / list-to-sections / change-list-type action is resolved on the real Server and applied by R9. Oracle: only the note itself is rewritten; the sequence of content leaves (R1; headings and item texts are the same thing here) is unchanged; change-list-type changes the kind of exactly one list, the innermost list around the line (lists numbered in document order by the harness's own parse; compared when input and result have the same number of lists); change-list-type applied twice and section-to-list followed by list-to-sections (for a section not adjacent to another list) give the formatted original byte-for-byte. non-trivial = at least one such action was offered".into()
    }
    fn bound(&self, tier: Tier) -> String {
        match tier {
            Tier::Quick => "forests <= 4 nodes, nesting <= 2, owners {1, d/5}".into(),
            Tier::Thorough => "forests <= 5 nodes, nesting <= 2, owners {1, d/5}".into(),
        }
    }
    fn assumptions(&self) -> Vec<String> {
        vec!["content leaves are compared through the R1 extractor in document order; whether a text is rendered as heading or as list item is what these actions change".into()]
    }
    fn enumerate(&self, tier: Tier, emit: &mut dyn FnMut(&str)) {
        enumerate_notes(tier, true, emit);
    }
    fn features(&self, case: &str) -> Vec<String> {
        prepare(case).map(|p| p.feats).unwrap_or_default()
    }
    fn run(&self, case: &str, _ctx: &Ctx) -> CaseResult {
        let Some(p) = prepare(case) else {
            return CaseResult { outcome: "panic-skip".into(), ..Default::default() };
        };
        let Ok(srv) = guarded(|| server_prod(&state_of(&p.lib), "")) else {
            return CaseResult { outcome: "panic-skip".into(), ..Default::default() };
        };
        let text = p.lib[&p.owner].clone();
        let nlines = text.split('\n').count() as u32;
        let before = leaf_strings(&p.owner, &text, true);
        let blocks = block_line_kinds(&text);
        let mut failures: Vec<Failure> = vec![];
        let mut tr = 0u64;
        let mut offered = 0u64;
        let mut extra_feature: Option<&'static str> = None;
        let mut pending: Vec<(String, String, String, Option<&'static str>)> = vec![];
        macro_rules! push {
            ($clause:expr, $site:expr, $detail:expr) => {{
                pending.push(($clause.to_string(), $site.to_string(), $detail, extra_feature.take()));
            }};
        }
        let apply_kind = |lib: &BTreeMap<String, String>, line: u32, kind: &str| -> Result<Option<BTreeMap<String, String>>, PanicInfo> {
            let s = guarded(|| server_prod(&state_of(lib), ""))?;
            let a = actions_at(&s, &p.owner, line)?.into_iter().find(|a| kind_of(a) == kind);
            match a {
                None => Ok(None),
                Some(a) => {
                    let r = guarded(|| s.handle_code_action_resolve(&a))?;
                    let mut l2 = lib.clone();
                    if let Some(e) = r.edit {
                        edits::apply(&mut l2, &e);
                    }
                    Ok(Some(l2))
                }
            }
        };
        for line in 0..nlines {
            tr += 1;
            let acts = match actions_at(&srv, &p.owner, line) {
                Ok(a) => a,
                Err(_) => continue,
            };
            for a in acts {
                let kind = kind_of(&a);
                if ![K_LIST_TYPE, K_LIST_TO_SECTIONS, K_SECTION_TO_LIST].contains(&kind.as_str()) {
                    continue;
                }
                offered += 1;
                tr += 1;
                let ctx = format!("{} at line {} of {:?}", kind, line, text);
                let resolved = match guarded(|| srv.handle_code_action_resolve(&a)) {
                    Ok(r) => r,
                    Err(pn) => {
                        push!("no-answer", &panic_site(&pn), format!("resolve panicked at {}: {}; {}", pn.0, trunc(&pn.1, 100), ctx));
                        continue;
                    }
                };
                let Some(edit) = resolved.edit.clone() else {
                    push!("no-edit", &kind, format!("offered action resolved without an edit; {}", ctx));
                    continue;
                };
                let mut lib2 = p.lib.clone();
                let applied = edits::apply(&mut lib2, &edit);
                if !applied.problems.is_empty() || !applied.created.is_empty() || !applied.deleted.is_empty() || applied.edited != vec![p.owner.clone()] {
                    push!("scope", &kind, format!("the edit touches more than the note: {:?}; {}", applied, ctx));
                    continue;
                }
                let t2 = lib2[&p.owner].clone();
                let after = leaf_strings(&p.owner, &t2, true);
                if after != before {
                    let i = before.iter().zip(after.iter()).position(|(x, y)| x != y).unwrap_or(before.len().min(after.len()));
                    push!("content", &kind, format!("content leaves differ from leaf {}: before {:?} after {:?}; result {:?}; {}", i, before.get(i), after.get(i), t2, ctx));
                    continue;
                }
                // only the list the line belongs to changes its kind (the innermost list around the line)
                if kind == K_LIST_TYPE {
                    let before_lists = list_spans(&text);
                    let after_lists = list_spans(&t2);
                    if before_lists.len() == after_lists.len() {
                        let flipped: Vec<usize> = (0..before_lists.len()).filter(|i| before_lists[*i].0 != after_lists[*i].0).collect();
                        let target = before_lists.iter().rposition(|l| l.1 <= line as usize && line as usize <= l.2);
                        if let Some(t) = target {
                            if flipped != vec![t] {
                                push!("scope", "list-type:other-list", format!("the line belongs to list #{} (lines {}..={}) but the lists that changed kind are {:?} (of {:?}); result {:?}; {}", t, before_lists[t].1, before_lists[t].2, flipped, before_lists, t2, ctx));
                                continue;
                            }
                        }
                    }
                }
                // inverse
                if kind == K_LIST_TYPE {
                    tr += 2;
                    match apply_kind(&lib2, line, K_LIST_TYPE) {
                        Ok(Some(l3)) => {
                            if l3[&p.owner] != text {
                                push!("undo", K_LIST_TYPE, format!("changing the list type twice gives {:?} instead of the original; once: {:?}; {}", l3[&p.owner], t2, ctx));
                            }
                        }
                        Ok(None) => push!("undo", "not-offered", format!("after changing the list type the action is not offered on the same line; once: {:?}; {}", t2, ctx)),
                        Err(pn) => push!("undo", "panic", format!("second change panicked at {}; {}", pn.0, ctx)),
                    }
                }
                if kind == K_SECTION_TO_LIST {
                    // adjacency to another list is decided on the input
                    let sec_end = {
                        // the section extends to the next heading of the same or a higher level (or the end)
                        let hl: Vec<(usize, u8)> = heading_levels(&text).iter().filter(|h| h.2 == 0).map(|h| (0usize, h.0)).collect();
                        let _ = hl;
                        let mut level = 0u8;
                        let mut end = nlines as usize;
                        let mut seen = false;
                        for (l, ln) in text.split('\n').enumerate() {
                            let lv = ln.chars().take_while(|c| *c == '#').count() as u8;
                            let is_h = lv > 0 && ln.chars().nth(lv as usize) == Some(' ');
                            if l == line as usize && is_h {
                                level = lv;
                                seen = true;
                            } else if seen && is_h && lv <= level {
                                end = l;
                                break;
                            }
                        }
                        end
                    };
                    let prev_is_list = blocks.iter().any(|(_, e, k)| *k == "list" && *e < line as usize && blocks.iter().all(|(s2, _, _)| !(*s2 > *e && *s2 < line as usize)));
                    let next_is_list = blocks.iter().any(|(s, _, k)| *k == "list" && *s >= sec_end && blocks.iter().all(|(s2, _, _)| !(*s2 >= sec_end && *s2 < *s)));
                    let contains_list = blocks.iter().any(|(s, _, k)| *k == "list" && *s > line as usize && *s < sec_end);
                    // inside a quote the neighbours of the section are not visible to the top-level
                    // block scan: when the note has lists inside quotes the exemption is assumed
                    let in_quote_with_list = text.split('\n').nth(line as usize).map(|l| l.trim_start().starts_with('>')).unwrap_or(false) && p.feats.iter().any(|f| f == "list");
                    if !prev_is_list && !next_is_list && !contains_list && !in_quote_with_list {
                        tr += 2;
                        match apply_kind(&lib2, line, K_LIST_TO_SECTIONS) {
                            Ok(Some(l3)) => {
                                if l3[&p.owner] != text {
                                    // input-side feature of this action: the section follows a section of the
                                    // same or a deeper level (then the list becomes a child of that section)
                                    // headings with their container: (line, level, quote depth, instance of the
                                    // quote at that depth); a heading follows only headings of its own container
                                    let mut tops: Vec<(usize, u8, usize, usize)> = vec![];
                                    let mut instance: Vec<usize> = vec![0; 8];
                                    let mut open_depth = 0usize;
                                    for (l, full) in text.split('\n').enumerate() {
                                        let mut depth = 0usize;
                                        let mut rest = full;
                                        loop {
                                            let t = rest.trim_start_matches(' ');
                                            match t.strip_prefix('>') {
                                                Some(r) => {
                                                    depth += 1;
                                                    rest = r;
                                                }
                                                None => {
                                                    rest = t;
                                                    break;
                                                }
                                            }
                                        }
                                        let depth = depth.min(7);
                                        // quotes deeper than this line are closed; re-opening gives a new instance
                                        for d in (depth + 1)..=open_depth.min(7) {
                                            instance[d] += 1;
                                        }
                                        open_depth = depth;
                                        let lv = rest.chars().take_while(|c| *c == '#').count();
                                        if lv > 0 && (rest.chars().nth(lv) == Some(' ') || rest.len() == lv) {
                                            tops.push((l, lv as u8, depth, instance[depth]));
                                        }
                                    }
                                    let me = tops.iter().position(|t| t.0 == line as usize);
                                    let follows = match me {
                                        Some(i) => tops[..i].iter().rev().find(|t| t.2 == tops[i].2 && t.3 == tops[i].3).map(|p| p.1 >= tops[i].1).unwrap_or(false),
                                        None => false,
                                    };
                                    if follows {
                                        extra_feature = Some("section-follows-same-or-deeper-section");
                                    }
                                    push!("undo", K_SECTION_TO_LIST, format!("section to list and back gives {:?} instead of the original; as list: {:?}; {}", l3[&p.owner], t2, ctx));
                                }
                            }
                            Ok(None) => push!("undo", "not-offered", format!("after section to list, 'list to sections' is not offered on the same line; as list: {:?}; {}", t2, ctx)),
                            Err(pn) => push!("undo", "panic", format!("list to sections panicked at {}; {}", pn.0, ctx)),
                        }
                    }
                }
            }
        }
        for (clause, site, detail, extra) in pending {
            let mut feats = p.feats.clone();
            if let Some(x) = extra {
                feats.push(x.to_string());
            }
            if !failures.iter().any(|f: &Failure| f.clause == clause && f.site == site && f.features == feats) {
                failures.push(Failure { clause, site, features: feats, detail });
            }
        }
        let outcome = if failures.is_empty() { format!("ok:{}", offered.min(9)) } else { failures.iter().map(|f| format!("{}:{}", f.clause, f.site)).collect::<Vec<_>>().join(",") };
        CaseResult { transitions: tr, nontrivial: offered > 0, outcome, failures, ..Default::default() }
    }
}
