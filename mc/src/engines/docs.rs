//! docspace engines: C01 (content preserved), C02 (fixpoint), C03 (no crash / hang).

use crate::core::*;
use crate::drive::*;
use crate::oracle::*;
use crate::space;
use lsp_types::*;
use serde_json::json;
use std::collections::HashMap;

const STACK_MAIN: usize = 8 << 20;
const STACK_WORKER: usize = 2 << 20;

fn doc_assumptions() -> Vec<String> {
    vec![
        "pulldown-cmark 0.13 (same option set as iwe's reader) is the trusted Markdown parser of the reference model".into(),
        "the claim is for every element of the stated finite document space, not for every UTF-8 string".into(),
    ]
}

fn doc_bound(tier: Tier) -> String {
    match tier {
        Tier::Quick => "token strings L<=3 over 31 tokens (incl. links to the empty url, `..` and `/`); block forests <=3 nodes (style variants + front-matter <=2 nodes, nesting <=2); inline atoms k<=1 in 6 hosts; 8 container kinds with 1..=5 blocks inside and 0..=2 behind; runs of 2..=4 adjacent blocks of one kind (11 kinds, at the top / in an item / in a quote); link destinations over every multi-byte alignment within 16 bytes".into(),
        Tier::Thorough => "token strings L<=4 over 31 tokens (incl. links to the empty url, `..` and `/`); block forests <=4 nodes (style variants + front-matter <=3 nodes, nesting <=3); inline atom sequences k<=2 (spaced and glued) in 6 hosts; 8 container kinds with 1..=5 blocks inside and 0..=2 behind; runs of 2..=4 adjacent blocks of one kind (11 kinds, at the top / in an item / in a quote); link destinations over every multi-byte alignment within 16 bytes".into(),
    }
}

// ====================================================================== C03

pub struct C03;

fn lsp_sweep(text: &str, fails: &mut Vec<(String, PanicInfo)>, transitions: &mut u64) {
    let other = "# two\n\n[z](zz)\n\ninline [z](zz) link\n";
    // start-up (main thread in production)
    let lib = lib_of(&[(DOC, text), ("2", other)]);
    *transitions += 1;
    let srv = match guarded(|| server(&lib, "")) {
        Ok(s) => Some(s),
        Err(p) => {
            fails.push(("startup".into(), p));
            None
        }
    };
    // edit notifications: to the text and away from it (loop thread in production)
    {
        let lib0 = lib_of(&[(DOC, "# zero\n"), ("2", other)]);
        if let Ok(mut s) = guarded(|| server(&lib0, "")) {
            let change = |t: &str| DidChangeTextDocumentParams {
                text_document: VersionedTextDocumentIdentifier { uri: uri(DOC), version: 1 },
                content_changes: vec![TextDocumentContentChangeEvent { range: None, range_length: None, text: t.to_string() }],
            };
            *transitions += 1;
            match guarded(|| s.handle_did_change_text_document(change(text))) {
                Err(p) => fails.push(("didChange(to)".into(), p)),
                Ok(_) => {
                    *transitions += 1;
                    if let Err(p) = guarded(|| s.handle_did_change_text_document(change("# away\n"))) {
                        fails.push(("didChange(away)".into(), p));
                    }
                    *transitions += 1;
                    if let Err(p) = guarded(|| {
                        s.handle_did_save_text_document(DidSaveTextDocumentParams {
                            text_document: TextDocumentIdentifier { uri: uri(DOC) },
                            text: Some(text.to_string()),
                        })
                    }) {
                        fails.push(("didSave".into(), p));
                    }
                    // requests that read the reference index of a server that has seen edits (the
                    // index keeps what earlier versions left behind)
                    for k in [DOC, "2"] {
                        *transitions += 2;
                        if let Err(p) = guarded(|| {
                            s.handle_references(ReferenceParams {
                                text_document_position: TextDocumentPositionParams { text_document: TextDocumentIdentifier { uri: uri(k) }, position: Position::new(0, 0) },
                                context: ReferenceContext { include_declaration: false },
                                work_done_progress_params: Default::default(),
                                partial_result_params: Default::default(),
                            })
                        }) {
                            fails.push(("references(after edits)".into(), p));
                        }
                        if let Err(p) = guarded(|| {
                            s.handle_inlay_hints(InlayHintParams {
                                text_document: TextDocumentIdentifier { uri: uri(k) },
                                range: Range::new(Position::new(0, 0), Position::new(1000, 0)),
                                work_done_progress_params: Default::default(),
                            })
                        }) {
                            fails.push(("inlayHint(after edits)".into(), p));
                        }
                    }
                }
            }
        }
    }
    // requests (2 MiB worker threads in production)
    let Some(srv) = srv else { return };
    let mut tr = 0u64;
    let out: Vec<(String, PanicInfo)> = std::thread::scope(|sc| {
        std::thread::Builder::new()
            .stack_size(STACK_WORKER)
            .spawn_scoped(sc, || {
                let mut fails: Vec<(String, PanicInfo)> = vec![];
                let td = TextDocumentIdentifier { uri: uri(DOC) };
                macro_rules! req {
                    ($name:expr, $e:expr) => {{
                        tr += 1;
                        match guarded(|| $e) {
                            Ok(v) => Some(v),
                            Err(p) => {
                                fails.push(($name.to_string(), p));
                                None
                            }
                        }
                    }};
                }
                req!("formatting", srv.handle_document_formatting(fmt_params(DOC)));
                req!("documentSymbol", srv.handle_document_symbols(DocumentSymbolParams {
                    text_document: td.clone(),
                    work_done_progress_params: Default::default(),
                    partial_result_params: Default::default()
                }));
                for q in ["", "a"] {
                    req!("workspace/symbol", srv.handle_workspace_symbols(WorkspaceSymbolParams {
                        query: q.into(),
                        work_done_progress_params: Default::default(),
                        partial_result_params: Default::default()
                    }));
                }
                req!("inlayHint", srv.handle_inlay_hints(InlayHintParams {
                    text_document: td.clone(),
                    range: Range::new(Position::new(0, 0), Position::new(1000, 0)),
                    work_done_progress_params: Default::default()
                }));
                let tdp = |l: u32, c: u32| TextDocumentPositionParams { text_document: td.clone(), position: Position::new(l, c) };
                req!("references", srv.handle_references(ReferenceParams {
                    text_document_position: tdp(0, 0),
                    context: ReferenceContext { include_declaration: false },
                    work_done_progress_params: Default::default(),
                    partial_result_params: Default::default()
                }));
                req!("completion", srv.handle_completion(CompletionParams {
                    text_document_position: tdp(0, 0),
                    context: None,
                    work_done_progress_params: Default::default(),
                    partial_result_params: Default::default()
                }));
                let lines: Vec<&str> = text.split('\n').collect();
                // every request reads the whole note: on the scale documents the sweep is narrowed so
                // that the horizon measures single requests, not their number
                let (max_lines, max_cols) = if text.len() > 50_000 { (4, 6) } else { (40, 60) };
                let nl = lines.len().min(max_lines);
                for l in 0..nl + 2 {
                    let acts = req!("codeAction", srv.handle_code_action(&CodeActionParams {
                        text_document: td.clone(),
                        range: Range::new(Position::new(l as u32, 0), Position::new(l as u32, 0)),
                        context: Default::default(),
                        work_done_progress_params: Default::default(),
                        partial_result_params: Default::default()
                    }));
                    for a in acts.unwrap_or_default() {
                        if let CodeActionOrCommand::CodeAction(ca) = a {
                            let kind = ca.kind.clone().map(|k| k.as_str().to_string()).unwrap_or_default();
                            req!(format!("codeAction/resolve[{}]", kind), srv.handle_code_action_resolve(&ca));
                        }
                    }
                    let len16 = lines.get(l).map(|s| s.encode_utf16().count()).unwrap_or(0).min(max_cols);
                    for c in 0..len16 + 2 {
                        req!("definition", srv.handle_goto_definition(GotoDefinitionParams {
                            text_document_position_params: tdp(l as u32, c as u32),
                            work_done_progress_params: Default::default(),
                            partial_result_params: Default::default()
                        }));
                        req!("prepareRename", srv.handle_prepare_rename(tdp(l as u32, c as u32)));
                    }
                }
                fails
            })
            .unwrap()
            .join()
            .unwrap_or_else(|_| vec![("worker-thread".into(), ("?".into(), "died".into()))])
    });
    *transitions += tr;
    fails.extend(out);
}

/// document features plus those that depend on the companion library {zz, 2}
pub fn doc_lib_features(text: &str) -> Vec<String> {
    let mut f = doc_features(text);
    for l in scan_links(text) {
        if l.alone_in_para && !is_external(&l.dest) {
            match resolve("", &l.dest) {
                Some(k) if k == "2" || k == DOC => {}
                _ => {
                    if !f.iter().any(|x| x == "dangling-block-reference") {
                        f.push("dangling-block-reference".into())
                    }
                }
            }
        }
    }
    f
}

fn c03_run_doc(text: &str) -> CaseResult {
    // (features come from the reference parser; a text it cannot read has none, iwe is swept anyway)
    let feats = guarded(|| doc_lib_features(text)).unwrap_or_default();
    let mut fails: Vec<(String, PanicInfo)> = vec![];
    let mut tr = 0u64;
    tr += 1;
    let formatted = match p1(DOC, text, "") {
        Ok(o) => Some(o),
        Err(p) => {
            fails.push(("from_markdown/to_markdown".into(), p));
            None
        }
    };
    lsp_sweep(text, &mut fails, &mut tr);
    let mut failures: Vec<Failure> = vec![];
    for (entry, p) in &fails {
        if failures.iter().any(|f| f.site == panic_site(p)) {
            continue;
        }
        failures.push(panic_failure(p.clone(), &feats, entry));
    }
    CaseResult {
        transitions: tr,
        nontrivial: formatted.as_deref().map(|o| o != text).unwrap_or(true),
        outcome: if failures.is_empty() { "ok".into() } else { format!("panic:{}", failures[0].site) },
        failures,
        ..Default::default()
    }
}

impl Engine for C03 {
    fn id(&self) -> &'static str {
        "C03"
    }
    fn rule(&self) -> String {
        "every document of the space is driven through parse/format, server start-up with a linking note, didChange to and away from it, didSave, and every read request (formatting, symbols, hints, references, completion, definition + prepareRename at every (line, character), codeAction at every line + resolve of every offered action); start-up/notifications on an 8 MiB stack, requests on 2 MiB threads; scale families run one subprocess each with a wall horizon. non-trivial = formatting changes the text or a panic occurs".into()
    }
    fn bound(&self, tier: Tier) -> String {
        format!("{}; scale families {:?} at n in {:?}, horizon 60 s of CPU time per case", doc_bound(tier), space::SCALE_FAMILIES, scale_sizes(tier))
    }
    fn assumptions(&self) -> Vec<String> {
        let mut a = doc_assumptions();
        a.push("inputs beyond the largest scale parameter and out-of-memory behaviour are outside the bound".into());
        a
    }
    fn enumerate(&self, tier: Tier, emit: &mut dyn FnMut(&str)) {
        for fam in space::SCALE_FAMILIES {
            for n in scale_sizes(tier) {
                emit(&format!("\u{1}scale:{}:{}", fam, n));
            }
        }
        space::doc_space(tier, emit);
    }
    fn horizon_s(&self) -> Option<u64> {
        // longer than the horizon the scale families get in their own subprocess (60 s of CPU time,
        // 240 s of wall time), so that it is always the inner horizon that ends such a run
        Some(300)
    }
    fn features(&self, case: &str) -> Vec<String> {
        if let Some(rest) = case.strip_prefix("\u{1}scale") {
            let parts: Vec<&str> = rest.trim_start_matches('!').trim_start_matches(':').split(':').collect();
            return scale_features(parts[0], parts[1].parse().unwrap_or(0));
        }
        doc_lib_features(case)
    }
    fn run(&self, case: &str, ctx: &Ctx) -> CaseResult {
        if let Some(rest) = case.strip_prefix("\u{1}scale:") {
            // outer: isolate in a subprocess with a horizon
            let inner = format!("\u{1}scale!:{}", rest);
            // horizon: 60 s of CPU time (load-independent), 240 s of wall time for runs that wait
            let r = run_case_subprocess_cpu("C03", ctx.tier, &inner, &ctx.active, Some(240), Some(60));
            let parts: Vec<&str> = rest.split(':').collect();
            let feats = scale_features(parts[0], parts[1].parse().unwrap_or(0));
            let failures = match r.died {
                Some(why) => vec![Failure {
                    // stack overflow, memory exhaustion and not finishing within the horizon are one
                    // clause: which of them ends a run near the limit is not deterministic
                    clause: "no-completion".into(),
                    site: String::new(),
                    features: feats,
                    detail: format!("scale family {}: {}", rest, why),
                }],
                None => r.failures,
            };
            return CaseResult { transitions: 1, nontrivial: true, outcome: if failures.is_empty() { "ok".into() } else { format!("{}:{}", failures[0].clause, failures[0].site) }, failures, ..Default::default() };
        }
        if let Some(rest) = case.strip_prefix("\u{1}scale!:") {
            let parts: Vec<&str> = rest.split(':').collect();
            let n: usize = parts[1].parse().unwrap();
            let text = space::scale_doc(parts[0], n);
            let feats = scale_features(parts[0], n);
            // the production main thread has an 8 MiB stack; request workers 2 MiB
            let t2 = text.clone();
            let mut r = guarded_on_stack(STACK_MAIN, move || c03_run_scale(&t2)).unwrap_or_else(|p| CaseResult {
                failures: vec![panic_failure(p, &[], "scale")],
                ..Default::default()
            });
            for f in r.failures.iter_mut() {
                f.features = feats.clone();
            }
            return r;
        }
        let text = case.to_string();
        guarded_on_stack(STACK_MAIN, move || c03_run_doc(&text)).unwrap_or_else(|p| CaseResult {
            failures: vec![panic_failure(p, &[], "harness")],
            ..Default::default()
        })
    }
}

fn scale_sizes(tier: Tier) -> Vec<usize> {
    match tier {
        Tier::Quick => vec![10, 100, 1000],
        Tier::Thorough => vec![10, 100, 1000, 10_000, 100_000],
    }
}

fn scale_features(fam: &str, n: usize) -> Vec<String> {
    let mut f = vec![format!("scale:{}", fam)];
    for t in [100usize, 1000, 10_000, 100_000] {
        if n >= t {
            f.push(format!("siblings>={}", t));
            f.push(format!("scale:{}>={}", fam, t));
            if fam.starts_with("nested-") && fam != "nested-headings" {
                f.push(format!("nesting>={}", t));
            }
        }
    }
    f
}

/// scale documents: same entry points but without the per-position sweep (one position per line start for the first lines)
fn c03_run_scale(text: &str) -> CaseResult {
    let mut fails: Vec<(String, PanicInfo)> = vec![];
    let mut tr = 1u64;
    if let Err(p) = p1(DOC, text, "") {
        fails.push(("from_markdown/to_markdown".into(), p));
    }
    // keep the LSP sweep affordable: positions are capped inside lsp_sweep (40 lines x 60 columns; 4 x 6 on texts above 50 kB)
    lsp_sweep(text, &mut fails, &mut tr);
    let mut failures: Vec<Failure> = vec![];
    for (entry, p) in &fails {
        if failures.iter().any(|f| f.site == panic_site(p)) {
            continue;
        }
        failures.push(panic_failure(p.clone(), &[], entry));
    }
    CaseResult { transitions: tr, nontrivial: true, outcome: if failures.is_empty() { "ok".into() } else { format!("panic:{}", failures[0].site) }, failures, ..Default::default() }
}

/// the reference parser itself gives up on a few texts (pulldown-cmark 0.13 unwraps a `None` on
/// `>- [x]:y\n\t`): there is nothing to compare such a text with
fn reference_parser_panics(text: &str) -> bool {
    guarded(|| {
        let _ = extract(text);
    })
    .is_err()
}

// ====================================================================== C01

pub struct C01;

fn r1_in(text: &str, dir: &str, titled: &dyn Fn(&str) -> bool) -> Vec<B> {
    map_toks(canon_in(extract(text), false), &|t| norm_links(t, dir, titled))
}
fn r1_out(text: &str, dir: &str, titled: &dyn Fn(&str) -> bool) -> Vec<B> {
    map_toks(canon_out(extract(text), false), &|t| norm_links(t, dir, titled))
}

/// compare content of `input` and `output`; returns a description of the first difference
pub fn content_diff(input: &str, output: &str, dir: &str, titled: &dyn Fn(&str) -> bool) -> Option<String> {
    let a = r1_in(input, dir, titled);
    let b = r1_out(output, dir, titled);
    if a == b {
        None
    } else {
        Some(first_diff(&a, &b))
    }
}

fn titled_in_doc_lib(k: &str) -> bool {
    k == "2"
}

impl Engine for C01 {
    fn id(&self) -> &'static str {
        "C01"
    }
    fn rule(&self) -> String {
        "every document of the space is formatted through from_markdown/to_markdown, import/export and the LSP formatting request, with refs_extension \"\" and \".md\"; R1(output) must equal R1(input) (same words in the same kind of block, code bodies, link/image destinations, items, cells, front-matter), modulo the documented drops and refreshed titles. non-trivial = formatted text differs from the input".into()
    }
    fn bound(&self, tier: Tier) -> String {
        format!("{}; ordered lists of 9..11, 99..101 (thorough: 999..1001) items with single-line and multi-block items", doc_bound(tier))
    }
    fn assumptions(&self) -> Vec<String> {
        doc_assumptions()
    }
    fn enumerate(&self, tier: Tier, emit: &mut dyn FnMut(&str)) {
        space::ordered_list_docs(if tier == Tier::Thorough { &[9, 10, 11, 99, 100, 101, 999, 1000, 1001] } else { &[9, 10, 11, 99, 100, 101] }, emit);
        space::doc_space(tier, emit);
    }
    fn features(&self, case: &str) -> Vec<String> {
        doc_features(case)
    }
    fn run(&self, case: &str, _ctx: &Ctx) -> CaseResult {
        let text = case;
        if reference_parser_panics(text) {
            return CaseResult { transitions: 1, outcome: "reference-parser-panics-skip".into(), ..Default::default() };
        }
        let mut tr = 0u64;
        let mut failures: Vec<Failure> = vec![];
        let mut nontrivial = false;
        let mut outcome = "same".to_string();
        let feats = doc_features(text);
        let mut seen_out: Vec<String> = vec![];
        for ext in ["", ".md"] {
            let lib = doc_lib(text);
            let outs: Vec<(&str, Option<String>)> = vec![
                ("to_markdown", p1(DOC, text, ext).ok()),
                ("export", p2(&lib, ext).ok().and_then(|m| m.get(DOC).cloned())),
                ("lsp-formatting", p4(&lib, DOC, ext).ok()),
            ];
            tr += 3;
            for (path, o) in outs {
                let Some(o) = o else {
                    outcome = "panic-skip".into();
                    continue;
                };
                if o != text {
                    nontrivial = true;
                    if outcome == "same" {
                        outcome = "changed".into();
                    }
                }
                if seen_out.contains(&o) {
                    continue;
                }
                seen_out.push(o.clone());
                if let Some(d) = content_diff(text, &o, "", &titled_in_doc_lib) {
                    if !failures.iter().any(|f| f.clause == "content") {
                        failures.push(Failure {
                            clause: "content".into(),
                            site: String::new(),
                            features: feats.clone(),
                            detail: format!("{} (refs_extension={:?}): {:?} -> {:?}: {}", path, ext, trunc(text, 200), trunc(&o, 200), trunc(&d, 300)),
                        });
                        outcome = "content-diff".into();
                    }
                }
            }
        }
        CaseResult { transitions: tr, nontrivial, outcome, failures, ..Default::default() }
    }
}

// ====================================================================== C02

pub struct C02;

impl Engine for C02 {
    fn id(&self) -> &'static str {
        "C02"
    }
    fn rule(&self) -> String {
        "every document of the space is formatted by each of four routes (to_markdown, import/export, update_key, LSP formatting); the result, formatted again by every route, must come back byte-for-byte, for refs_extension \"\" and \".md\". non-trivial = first formatting changed the text".into()
    }
    fn bound(&self, tier: Tier) -> String {
        format!("{}; ordered lists of n in 8..12, 98..101, 999..1001 items (single-line items, and items with a nested list / second paragraph / code block)", doc_bound(tier))
    }
    fn assumptions(&self) -> Vec<String> {
        doc_assumptions()
    }
    fn enumerate(&self, tier: Tier, emit: &mut dyn FnMut(&str)) {
        space::ordered_list_docs(&[8, 9, 10, 11, 12, 98, 99, 100, 101, 999, 1000, 1001], emit);
        space::doc_space(tier, emit);
    }
    fn features(&self, case: &str) -> Vec<String> {
        doc_features(case)
    }
    fn run(&self, case: &str, _ctx: &Ctx) -> CaseResult {
        let text = case;
        if reference_parser_panics(text) {
            return CaseResult { transitions: 1, outcome: "reference-parser-panics-skip".into(), ..Default::default() };
        }
        let feats = doc_features(text);
        let mut tr = 0u64;
        let mut failures: Vec<Failure> = vec![];
        let mut nontrivial = false;
        let mut outcome = "fixpoint".to_string();
        for ext in ["", ".md"] {
            let all = |t: &str| -> Vec<(&'static str, Option<String>)> {
                let lib = doc_lib(t);
                vec![
                    ("to_markdown", p1(DOC, t, ext).ok()),
                    ("export", p2(&lib, ext).ok().and_then(|m| m.get(DOC).cloned())),
                    ("update_key", p3(&lib, DOC, ext).ok()),
                    ("lsp-formatting", p4(&lib, DOC, ext).ok()),
                ]
            };
            let first = all(text);
            tr += 4;
            let mut firsts: Vec<(&str, String)> = vec![];
            for (p, o) in first {
                match o {
                    Some(o) => {
                        if o != text {
                            nontrivial = true;
                        }
                        if !firsts.iter().any(|(_, x)| *x == o) {
                            firsts.push((p, o));
                        }
                    }
                    None => outcome = "panic-skip".into(),
                }
            }
            for (p_i, o1) in &firsts {
                let second = all(o1);
                tr += 4;
                for (p_j, o2) in second {
                    let bad = match &o2 {
                        Some(o2) => o2 != o1,
                        None => true,
                    };
                    if bad {
                        let same_path = p_i == &p_j;
                        let clause = if same_path { "fixpoint" } else { "fixpoint-cross" };
                        if !failures.iter().any(|f| f.clause == clause) && !(clause == "fixpoint-cross" && failures.iter().any(|f| f.clause == "fixpoint")) {
                            failures.push(Failure {
                                clause: clause.into(),
                                site: String::new(),
                                features: feats.clone(),
                                detail: format!(
                                    "{} then {} (refs_extension={:?}): {:?} -> {:?} -> {}",
                                    p_i, p_j, ext, trunc(text, 160), trunc(o1, 160),
                                    o2.as_ref().map(|x| format!("{:?}", trunc(x, 160))).unwrap_or("PANIC".into())
                                ),
                            });
                            outcome = clause.into();
                        }
                    }
                }
            }
        }
        let _ = json!(null);
        let _: HashMap<String, String> = HashMap::new();
        CaseResult { transitions: tr, nontrivial, outcome, failures, ..Default::default() }
    }
}

// ====================================================================== C07

pub struct C07;

fn well_nested(levels: &[u8]) -> bool {
    let mut prev = 0u8;
    for (i, l) in levels.iter().enumerate() {
        if i == 0 {
            if *l != 1 {
                return false;
            }
        } else if *l > prev + 1 {
            return false;
        }
        prev = *l;
    }
    true
}

/// structure of a note: per block (container path, index of the nearest preceding heading in the
/// same container, kind; for headings also the text without link texts), item counts per list
fn structure(bs: &[B]) -> (Vec<(String, i64, &'static str, String)>, Vec<(bool, usize)>) {
    fn strip_links(ts: &[Tok]) -> String {
        ts.iter()
            .filter_map(|t| match t {
                Tok::W(w) => Some(w.clone()),
                Tok::Code(c) => Some(c.clone()),
                _ => None,
            })
            .collect::<Vec<_>>()
            .join(" ")
    }
    let o = outline(bs);
    // recompute heading texts without link texts (they may be refreshed)
    fn heads(bs: &[B], out: &mut Vec<String>) {
        for b in bs {
            match b {
                B::Heading(t) => out.push(strip_links(t)),
                B::Quote(v) => heads(v, out),
                B::List(_, items) => {
                    for i in items {
                        heads(i, out)
                    }
                }
                _ => {}
            }
        }
    }
    let mut hs = vec![];
    heads(bs, &mut hs);
    let mut hi = 0;
    let blocks = o
        .blocks
        .iter()
        .map(|b| {
            let text = if b.kind == "heading" {
                let t = hs.get(hi).cloned().unwrap_or_default();
                hi += 1;
                t
            } else {
                String::new()
            };
            (b.path.clone(), b.under, b.kind, text)
        })
        .collect();
    (blocks, o.list_items)
}

impl Engine for C07 {
    fn id(&self) -> &'static str {
        "C07"
    }
    fn rule(&self) -> String {
        "documents = all heading-level sequences over levels 1-6 up to the bound (ATX and setext, with and without body paragraphs) + the block-grammar forests (lists nested and mixed, multi-block items, quotes containing them) + ordered lists around 9/10 and 99/100 items; each is formatted by the real code; the independent outline extractor (R2, on the R1 trees, with the statement's input-side equivalences) must give the same structure for input and output: headings in order with their text, every block in the same container path (quote / bullet item / ordered item) under the same nearest preceding heading, the same number of items per list, the same list kinds; the heading levels of the output - at document level and inside every quote and list item separately - must be well-nested and equal to the input's when those were well-nested. non-trivial = formatting changed the text".into()
    }
    fn bound(&self, tier: Tier) -> String {
        match tier {
            Tier::Quick => "heading sequences of length <= 5; block forests <= 4 nodes nesting <= 4 over the rich leaf alphabet (style variants <= 3 nodes); ordered lists of 8..12, 98..101 items".into(),
            Tier::Thorough => "heading sequences of length <= 6; block forests <= 5 nodes over the basic leaf alphabet and <= 4 nodes over the rich one, nesting <= 4 (style variants <= 3 nodes); ordered lists of 8..12, 98..101, 999..1001 items".into(),
        }
    }
    fn assumptions(&self) -> Vec<String> {
        let mut a = doc_assumptions();
        a.push("heading levels inside quotes and list items are compared per container (they restart there) whenever input and output have the same number of containers with headings (a heading that is the first block of an item is its text and not counted); link texts inside headings may be refreshed and are not part of the heading text compared".into());
        a
    }
    fn enumerate(&self, tier: Tier, emit: &mut dyn FnMut(&str)) {
        let thorough = tier == Tier::Thorough;
        space::heading_sequences(if thorough { 6 } else { 5 }, emit);
        let ns: &[usize] = if thorough { &[8, 9, 10, 11, 12, 98, 99, 100, 101, 999, 1000, 1001] } else { &[8, 9, 10, 11, 12, 98, 99, 100, 101] };
        space::ordered_list_docs(ns, emit);
        space::wide_container_docs(emit);
        space::sibling_run_docs(emit);
        space::blank_nested_docs(emit);
        if thorough {
            space::block_docs(5, 3, 4, false, emit);
            space::block_docs(4, 3, 4, true, emit);
        } else {
            space::block_docs(4, 3, 4, true, emit);
        }
    }
    fn features(&self, case: &str) -> Vec<String> {
        doc_features(case)
    }
    fn run(&self, case: &str, _ctx: &Ctx) -> CaseResult {
        let text = case;
        if reference_parser_panics(text) {
            return CaseResult { transitions: 1, outcome: "reference-parser-panics-skip".into(), ..Default::default() };
        }
        let feats = doc_features(text);
        let Ok(out) = p1(DOC, text, "") else {
            return CaseResult { outcome: "panic-skip".into(), transitions: 1, ..Default::default() };
        };
        let mut failures: Vec<Failure> = vec![];
        let mut push = |clause: &str, site: &str, detail: String| {
            if !failures.iter().any(|f: &Failure| f.clause == clause) {
                failures.push(Failure { clause: clause.into(), site: site.into(), features: feats.clone(), detail });
            }
        };
        let a = structure(&canon_in(extract(text), false));
        let b = structure(&canon_out(extract(&out), false));
        let ctx = format!("{:?} -> {:?}", trunc(text, 300), trunc(&out, 300));
        let ha: Vec<&String> = a.0.iter().filter(|x| x.2 == "heading").map(|x| &x.3).collect();
        let hb: Vec<&String> = b.0.iter().filter(|x| x.2 == "heading").map(|x| &x.3).collect();
        if ha != hb {
            push("headings", "", format!("heading texts/order: expected {:?} got {:?}; {}", ha, hb, ctx));
        } else if a.0 != b.0 {
            let i = a.0.iter().zip(b.0.iter()).position(|(x, y)| x != y).unwrap_or(a.0.len().min(b.0.len()));
            push("placement", "", format!("block {}: expected (container, under-heading, kind) {:?} got {:?}; {}", i, a.0.get(i), b.0.get(i), ctx));
        }
        if a.1 != b.1 {
            push("lists", "", format!("lists (ordered?, items): expected {:?} got {:?}; {}", a.1, b.1, ctx));
        }
        let li: Vec<u8> = heading_levels(text).iter().filter(|h| h.2 == 0).map(|h| h.0).collect();
        let lo: Vec<u8> = heading_levels(&out).iter().filter(|h| h.2 == 0).map(|h| h.0).collect();
        if !well_nested(&lo) {
            push("levels", "not-well-nested", format!("output heading levels {:?} are not well-nested (input {:?}); {}", lo, li, ctx));
        } else if well_nested(&li) && li != lo {
            push("levels", "changed", format!("input levels {:?} were well-nested but the output has {:?}; {}", li, lo, ctx));
        }
        // the same per quote and per list item (levels restart there)
        let ci = container_levels(text);
        let co = container_levels(&out);
        let mut inner = "";
        if ci.len() == co.len() {
            for (x, y) in ci.iter().zip(co.iter()).skip(1) {
                inner = "+inner";
                if !well_nested(y) {
                    push("levels", "inner:not-well-nested", format!("heading levels {:?} inside a quote or list item of the output are not well-nested (input {:?}); {}", y, x, ctx));
                } else if well_nested(x) && x != y {
                    push("levels", "inner:changed", format!("levels {:?} inside a quote or list item were well-nested but the output has {:?}; {}", x, y, ctx));
                }
            }
        } else {
            inner = "+inner-containers-regrouped";
        }
        let outcome = if failures.is_empty() { if li == lo { format!("same-levels{}", inner) } else { format!("renested{}", inner) } } else { failures.iter().map(|f| f.clause.clone()).collect::<Vec<_>>().join("+") };
        CaseResult { transitions: 1, nontrivial: out != text, outcome, failures, ..Default::default() }
    }
}
