//! sched engine: C11 — no edit notification is lost, whatever requests are in flight.
//!
//! System under exploration: the real `iwes::main_loop` on `Connection::memory()`: one loop
//! thread, one OS thread per request (spawned by the real router). The hooks (cargo feature
//! `verif-hooks`) give pause points in every worker (start / computing / computed / responded)
//! and a "loop handled message" signal; the worker's JoinHandle tells when it is gone.
//!
//! A case is one client script. For each script ALL interleavings of the actors' steps are
//! explored by depth-first search with prefix replay (every execution starts a fresh server):
//! exactly one thread runs at a time, the explorer releases one actor and waits for its next
//! event. Steps of different workers commute (handlers take `&Server`, the order of responses
//! on the channel is not observed), so within a block of consecutive worker steps only the
//! order with non-decreasing worker index is explored (one representative per Mazurkiewicz
//! trace); loop steps are never reordered.

use crate::core::*;
use crate::drive::*;
use iwes::hooks::{self, Event};
use iwes::{main_loop, ServerParams};
use liwe::model::config::Configuration;
use lsp_server::{Connection, Message, Notification, Request};
use lsp_types::*;
use serde_json::{json, Value};
use std::collections::{BTreeMap, HashMap};
use std::sync::atomic::{AtomicBool, Ordering};
use std::sync::mpsc::{channel, Receiver, Sender};
use std::sync::{Arc, Mutex};
use std::time::Duration;

#[derive(Clone, Debug, PartialEq)]
pub enum Msg {
    Fmt(&'static str),
    Refs(&'static str),
    Chg(&'static str, &'static str),
    Save(&'static str, &'static str),
    /// a code-action request (its answer carries ids of a process-global counter: only counted, not compared)
    Act(&'static str),
    /// a didChange without any content change: legal, carries no edit; its handler panics while
    /// the loop holds the server for writing (the panic is contained) - nothing sent after it may
    /// be lost because of it
    ChgEmpty(&'static str),
}

pub const ALPHABET: &[(&str, Msg)] = &[
    ("F1", Msg::Fmt("1")),
    ("F2", Msg::Fmt("2")),
    ("R2", Msg::Refs("2")),
    ("C1a", Msg::Chg("1", "# one A\n\n[two](2)\n")),
    ("C1b", Msg::Chg("1", "# one B\n")),
    ("C2a", Msg::Chg("2", "# two A\n")),
    ("S1c", Msg::Save("1", "# one C\n\n[x](2)\n")),
    ("C3n", Msg::Chg("3", "# three\n\n[two](2)\n")),
    ("E1", Msg::ChgEmpty("1")),
    ("A1", Msg::Act("1")),
];

fn initial_lib() -> HashMap<String, String> {
    lib_of(&[("1", "# one\n\n[two](2)\n"), ("2", "# two\n")])
}

pub fn parse_script(case: &str) -> Vec<(String, Msg)> {
    case.split(',')
        .filter(|s| !s.is_empty())
        .map(|s| {
            let m = ALPHABET.iter().find(|(n, _)| *n == s).unwrap_or_else(|| panic!("unknown message {}", s));
            (m.0.to_string(), m.1.clone())
        })
        .collect()
}

fn is_request(m: &Msg) -> bool {
    matches!(m, Msg::Fmt(_) | Msg::Refs(_) | Msg::Act(_))
}

enum Ev {
    LoopApplying,
    LoopHandled(bool),
    Spawned(String, std::thread::JoinHandle<bool>),
    Paused(String, u8, Sender<()>),
}

struct Worker {
    req_id: i32,
    phase: u8,
    release: Option<Sender<()>>,
    handle: Option<std::thread::JoinHandle<bool>>,
    done: bool,
    exit_ok: bool,
}

#[derive(Debug, Clone, PartialEq, Eq, PartialOrd, Ord)]
pub enum Choice {
    L,
    W(usize),
    /// the client sends the next message while the loop is blocked on the write lock: the message
    /// waits in the inbox (several can pile up) and is handled when the loop comes back
    Q,
}

pub struct Exec {
    pub choices: Vec<Choice>,
    pub enabled_at: Vec<Vec<Choice>>,
    pub log: Vec<String>,
    /// request id -> (script position, response result or "ERR"/"NONE")
    pub responses: BTreeMap<i32, Vec<Value>>,
    pub request_pos: BTreeMap<i32, usize>,
    pub loop_panics: Vec<String>,
    pub final_fmt: BTreeMap<String, Option<String>>,
    pub met_live_worker: bool,
    pub met_computing_worker: bool,
    pub deadlock: bool,
    pub steps: u64,
}

fn wait(rx: &Receiver<Ev>) -> Ev {
    rx.recv_timeout(Duration::from_secs(30)).expect("sched harness: no event within 30 s (lost control of the system under test)")
}

fn next(rx: &Receiver<Ev>, backlog: &mut std::collections::VecDeque<Ev>) -> Ev {
    match backlog.pop_front() {
        Some(e) => e,
        None => wait(rx),
    }
}

fn fmt_request(id: i32, k: &str) -> Message {
    Message::Request(Request::new(id.into(), "textDocument/formatting".into(), fmt_params(k)))
}

fn refs_request(id: i32, k: &str) -> Message {
    Message::Request(Request::new(
        id.into(),
        "textDocument/references".into(),
        ReferenceParams {
            text_document_position: TextDocumentPositionParams { text_document: TextDocumentIdentifier { uri: uri(k) }, position: Position::new(0, 0) },
            context: ReferenceContext { include_declaration: false },
            work_done_progress_params: Default::default(),
            partial_result_params: Default::default(),
        },
    ))
}

/// document versions are not monotone over a script: an editor restarts them when a note is closed
/// and opened again (the server is not told: it ignores didOpen / didClose), so "the last text
/// sent" is decided by the order of arrival alone: 10, 1, 8, 3, 6, 5, ...
fn version_at(pos: usize) -> i32 {
    if pos % 2 == 0 {
        10 - pos as i32
    } else {
        pos as i32
    }
}

fn build_message(m: &Msg, req_id: i32, pos: usize) -> Message {
    match m {
        Msg::Fmt(k) => fmt_request(req_id, k),
        Msg::Refs(k) => refs_request(req_id, k),
        Msg::Act(k) => Message::Request(Request::new(
            req_id.into(),
            "textDocument/codeAction".into(),
            CodeActionParams {
                text_document: TextDocumentIdentifier { uri: uri(k) },
                range: Range::new(Position::new(0, 0), Position::new(0, 0)),
                context: Default::default(),
                work_done_progress_params: Default::default(),
                partial_result_params: Default::default(),
            },
        )),
        Msg::Chg(k, t) => Message::Notification(Notification::new(
            "textDocument/didChange".into(),
            DidChangeTextDocumentParams {
                text_document: VersionedTextDocumentIdentifier { uri: uri(k), version: version_at(pos) },
                content_changes: vec![TextDocumentContentChangeEvent { range: None, range_length: None, text: t.to_string() }],
            },
        )),
        Msg::Save(k, t) => Message::Notification(Notification::new(
            "textDocument/didSave".into(),
            DidSaveTextDocumentParams { text_document: TextDocumentIdentifier { uri: uri(k) }, text: Some(t.to_string()) },
        )),
        Msg::ChgEmpty(k) => Message::Notification(Notification::new(
            "textDocument/didChange".into(),
            DidChangeTextDocumentParams { text_document: VersionedTextDocumentIdentifier { uri: uri(k), version: version_at(pos) }, content_changes: vec![] },
        )),
    }
}

/// One execution of the real server under the schedule `prefix` (then default choices).
pub fn run_schedule(script: &[(String, Msg)], prefix: &[Choice]) -> Exec {
    let (tx, rx): (Sender<Ev>, Receiver<Ev>) = channel();
    let free = Arc::new(AtomicBool::new(false));
    let txm = Mutex::new(tx);
    let free2 = free.clone();
    hooks::install(Some(Arc::new(move |e: Event| {
        let tx = txm.lock().unwrap().clone();
        let pause = |id: String, phase: u8| {
            if free2.load(Ordering::SeqCst) {
                return;
            }
            let (r, w) = channel();
            let _ = tx.send(Ev::Paused(id, phase, r));
            let _ = w.recv();
        };
        match e {
            Event::LoopApplying => {
                let _ = tx.send(Ev::LoopApplying);
            }
            Event::LoopHandled { panicked } => {
                let _ = tx.send(Ev::LoopHandled(panicked));
            }
            Event::WorkerSpawned { id, handle } => {
                let _ = tx.send(Ev::Spawned(id, handle));
            }
            Event::WorkerStart { id } => pause(id, 0),
            Event::WorkerComputing { id } => pause(id, 1),
            Event::WorkerComputed { id } => pause(id, 2),
            Event::WorkerResponded { id } => pause(id, 3),
        }
    })));
    let (conn, client) = Connection::memory();
    let state = initial_lib();
    let server = std::thread::spawn(move || {
        main_loop(
            conn,
            ServerParams { state: Some(state), sequential_ids: Some(true), client_name: None, configuration: Configuration::default(), base_path: BASE.into() },
        )
        .is_ok()
    });

    let mut workers: Vec<Worker> = vec![];
    let mut ids: HashMap<String, usize> = HashMap::new();
    let mut next_msg = 0usize;
    let mut req_id = 0i32;
    let mut x = Exec {
        choices: vec![],
        enabled_at: vec![],
        log: vec![],
        responses: BTreeMap::new(),
        request_pos: BTreeMap::new(),
        loop_panics: vec![],
        final_fmt: BTreeMap::new(),
        met_live_worker: false,
        met_computing_worker: false,
        deadlock: false,
        steps: 0,
    };
    // a notification was delivered while a worker holds the server for computing: the loop is
    // expected to wait for it; its LoopHandled is collected when the last such worker lets go
    let mut loop_pending: Option<String> = None;
    // loop-side events that arrive while the explorer waits for a worker's pause point (the loop
    // runs on as soon as the last computing worker lets go of the server); consumed in order
    let mut backlog: std::collections::VecDeque<Ev> = Default::default();
    let mut queued: Vec<(String, Msg, Option<i32>)> = vec![];
    let mut last_choice: Option<Choice> = None;

    // the loop (or a worker it spawned) has to report within 5 s of being handed something; if it
    // does not, nothing in the system can move any more: a deadlock, the execution is abandoned
    macro_rules! w {
        ($l:lifetime) => {
            match rx.recv_timeout(Duration::from_secs(5)) {
                Ok(e) => e,
                Err(_) => {
                    x.log.push("no event from the loop for 5 s".to_string());
                    x.deadlock = true;
                    break $l;
                }
            }
        };
    }
    macro_rules! nx {
        ($l:lifetime) => {
            match backlog.pop_front() {
                Some(e) => e,
                None => w!($l),
            }
        };
    }
    'run: loop {
        let holders = workers.iter().filter(|w| !w.done && w.phase == 1).count();
        let mut enabled = vec![];
        if next_msg < script.len() && loop_pending.is_none() {
            enabled.push(Choice::L);
        }
        for (i, w) in workers.iter().enumerate() {
            if w.done {
                continue;
            }
            // a worker about to take the server cannot get it while the loop waits to write
            if w.phase == 0 && loop_pending.is_some() {
                continue;
            }
            // partial-order reduction: consecutive worker steps in non-decreasing worker order
            if let Some(Choice::W(j)) = last_choice {
                if i < j {
                    continue;
                }
            }
            enabled.push(Choice::W(i));
        }
        if next_msg < script.len() && loop_pending.is_some() {
            enabled.push(Choice::Q);
        }
        if enabled.is_empty() {
            // reduction may have filtered everything although workers remain: lift it
            let rest: Vec<Choice> = workers
                .iter()
                .enumerate()
                .filter(|(_, w)| !w.done && !(w.phase == 0 && loop_pending.is_some()))
                .map(|(i, _)| Choice::W(i))
                .collect();
            if rest.is_empty() {
                if loop_pending.is_some() || workers.iter().any(|w| !w.done) {
                    x.deadlock = true;
                }
                break;
            }
            // only reachable when the last step was W(j) and all remaining live workers have index < j
            enabled = vec![rest[0].clone()];
        }
        let _ = holders;
        let step = x.choices.len();
        let c = if step < prefix.len() {
            assert!(enabled.contains(&prefix[step]), "replay divergence at step {}: {:?} not in {:?}", step, prefix[step], enabled);
            prefix[step].clone()
        } else {
            enabled[0].clone()
        };
        if std::env::var_os("MC_SCHED_TRACE").is_some() {
            eprintln!("step {} choice {:?} enabled {:?} log {:?}", step, c, enabled, x.log.last());
        }
        x.enabled_at.push(enabled.clone());
        x.choices.push(c.clone());
        x.steps += 1;
        last_choice = Some(c.clone());
        match c {
            Choice::Q => {
                let (name, m) = script[next_msg].clone();
                let pos = next_msg;
                next_msg += 1;
                let rid = if is_request(&m) {
                    req_id += 1;
                    x.request_pos.insert(req_id, pos);
                    Some(req_id)
                } else {
                    None
                };
                client.sender.send(build_message(&m, rid.unwrap_or(0), pos)).unwrap();
                x.log.push(format!("Q:{} (queued behind the blocked loop)", name));
                queued.push((name, m, rid));
            }
            Choice::L => {
                let (name, m) = script[next_msg].clone();
                let pos = next_msg;
                next_msg += 1;
                if is_request(&m) {
                    req_id += 1;
                    x.request_pos.insert(req_id, pos);
                    let msg = build_message(&m, req_id, pos);
                    client.sender.send(msg).unwrap();
                    let (mut got_l, mut got_s) = (false, false);
                    let mut pend: Option<(String, u8, Sender<()>)> = None;
                    while !(got_l && got_s && pend.is_some()) {
                        match w!('run) {
                            Ev::LoopHandled(p) => {
                                got_l = true;
                                if p {
                                    x.loop_panics.push(name.clone());
                                }
                            }
                            Ev::Spawned(id, h) => {
                                ids.insert(id, workers.len());
                                workers.push(Worker { req_id, phase: 0, release: None, handle: Some(h), done: false, exit_ok: true });
                                got_s = true;
                            }
                            Ev::Paused(id, ph, r) => pend = Some((id, ph, r)),
                            Ev::LoopApplying => {}
                        }
                    }
                    let (id, ph, r) = pend.unwrap();
                    let i = ids[&id];
                    workers[i].phase = ph;
                    workers[i].release = Some(r);
                    x.log.push(format!("L:{}#{}", name, req_id));
                } else {
                    if workers.iter().any(|w| !w.done) {
                        x.met_live_worker = true;
                    }
                    let computing = workers.iter().any(|w| !w.done && w.phase == 1);
                    if computing {
                        x.met_computing_worker = true;
                    }
                    let msg = build_message(&m, 0, pos);
                    client.sender.send(msg).unwrap();
                    // the loop announces that it is about to ask for write access
                    match w!('run) {
                        Ev::LoopApplying => {}
                        _ => panic!("sched harness: expected LoopApplying"),
                    }
                    if computing {
                        // give the loop thread the few instructions between the announcement and the
                        // lock call, so that an implementation that does NOT wait shows its behaviour
                        // deterministically (a waiting implementation is unaffected)
                        std::thread::sleep(Duration::from_micros(500));
                        loop_pending = Some(name.clone());
                        x.log.push(format!("L:{} (delivered while a worker is computing)", name));
                    } else {
                        match w!('run) {
                            Ev::LoopHandled(p) => {
                                x.log.push(format!("L:{} panicked={}", name, p));
                                if p {
                                    x.loop_panics.push(name.clone());
                                }
                            }
                            _ => panic!("sched harness: unexpected event while the loop handles a notification"),
                        }
                    }
                }
            }
            Choice::W(i) => {
                let r = workers[i].release.take().expect("release handle");
                let _ = r.send(());
                if workers[i].phase == 3 {
                    let h = workers[i].handle.take().unwrap();
                    workers[i].exit_ok = h.join().is_ok();
                    workers[i].done = true;
                    x.log.push(format!("W{}:exit", i));
                } else {
                    // the worker runs to its next pause point (or dies: then its thread ends)
                    let mut died = false;
                    let released_at = std::time::Instant::now();
                    loop {
                        // a released worker that neither reaches its next pause point nor ends is stuck
                        // (e.g. it asks for the server a second time while the loop waits to write):
                        // reported as a deadlock, the execution is abandoned
                        if released_at.elapsed() > Duration::from_secs(3) {
                            x.log.push(format!("W{}: no progress for 3 s after release", i));
                            x.deadlock = true;
                            break 'run;
                        }
                        match rx.recv_timeout(Duration::from_millis(50)) {
                            Ok(Ev::Paused(id, ph, r)) if ids.get(&id) == Some(&i) => {
                                workers[i].phase = ph;
                                workers[i].release = Some(r);
                                x.log.push(format!("W{}:->{}", i, ph));
                                break;
                            }
                            Ok(other) => {
                                // only legal while the loop has a delivered notification (and possibly an
                                // inbox) to work on: the explorer's own bookkeeping, not timing, decides
                                // when these events are consumed
                                if loop_pending.is_none() {
                                    panic!("sched harness: loop event without a pending message");
                                }
                                backlog.push_back(other);
                            }
                            Err(_) => {
                                if workers[i].handle.as_ref().map(|h| h.is_finished()).unwrap_or(false) {
                                    died = true;
                                    break;
                                }
                            }
                        }
                    }
                    if died {
                        let h = workers[i].handle.take().unwrap();
                        workers[i].exit_ok = h.join().is_ok();
                        workers[i].done = true;
                        x.log.push(format!("W{}:died", i));
                    }
                }
                // did the last computing worker let go while the loop waits? then the loop finishes now
                if loop_pending.is_some() && !workers.iter().any(|w| !w.done && w.phase == 1) {
                    let name = loop_pending.take().unwrap();
                    let p = match nx!('run) {
                        Ev::LoopHandled(p) => p,
                        _ => panic!("sched harness: expected the pending notification to complete"),
                    };
                    x.log.push(format!("L:{} completed panicked={}", name, p));
                    if p {
                        x.loop_panics.push(name);
                    }
                    // the loop now works through everything that piled up in the inbox, in order. Its
                    // own events (applying / handled / spawned) arrive in program order; the "start"
                    // pauses of the workers it spawns come from other threads and interleave freely
                    let mut parked: HashMap<String, (u8, Sender<()>)> = HashMap::new();
                    let mut fresh: Vec<String> = vec![];
                    for (qname, qm, rid) in queued.drain(..) {
                        let _ = qm;
                        let (mut got_l, mut got_s) = (false, rid.is_none());
                        while !(got_l && got_s) {
                            match nx!('run) {
                                Ev::LoopHandled(p) => {
                                    got_l = true;
                                    if p {
                                        x.loop_panics.push(qname.clone());
                                    }
                                }
                                Ev::Spawned(id, h) => {
                                    ids.insert(id.clone(), workers.len());
                                    workers.push(Worker { req_id: rid.unwrap_or(0), phase: 0, release: None, handle: Some(h), done: false, exit_ok: true });
                                    fresh.push(id);
                                    got_s = true;
                                }
                                Ev::Paused(id, ph, r) => {
                                    parked.insert(id, (ph, r));
                                }
                                Ev::LoopApplying => {}
                            }
                        }
                        match rid {
                            Some(rid) => x.log.push(format!("L:{}#{} (from the inbox)", qname, rid)),
                            None => x.log.push(format!("L:{} (from the inbox)", qname)),
                        }
                    }
                    // every worker spawned on the way is parked at its start
                    for id in fresh {
                        while !parked.contains_key(&id) {
                            match nx!('run) {
                                Ev::Paused(pid, ph, r) => {
                                    parked.insert(pid, (ph, r));
                                }
                                _ => panic!("sched harness: unexpected event while the spawned workers park"),
                            }
                        }
                        let (ph, r) = parked.remove(&id).unwrap();
                        let wi = ids[&id];
                        workers[wi].phase = ph;
                        workers[wi].release = Some(r);
                    }
                    assert!(parked.is_empty() && backlog.is_empty(), "sched harness: events left over after the loop drained its inbox");
                }
            }
        }
    }
    // responses of the script's requests
    while let Ok(m) = client.receiver.try_recv() {
        if let Message::Response(r) = m {
            let id: i32 = r.id.to_string().parse().unwrap_or(-1);
            let v = match (r.result, r.error) {
                (Some(v), None) => v,
                (_, Some(e)) => json!({"ERR": e.message}),
                _ => json!("EMPTY"),
            };
            x.responses.entry(id).or_default().push(v);
        }
    }
    // quiescent probes, free-running
    free.store(true, Ordering::SeqCst);
    if !x.deadlock {
        let mut keys: Vec<String> = vec!["1".into(), "2".into()];
        for (_, m) in script {
            if let Msg::Chg(k, _) | Msg::Save(k, _) = m {
                if !keys.contains(&k.to_string()) {
                    keys.push(k.to_string());
                }
            }
        }
        for k in keys {
            req_id += 1;
            client.sender.send(fmt_request(req_id, &k)).unwrap();
            let mut h = None;
            let mut got_l = false;
            let mut stuck = false;
            while h.is_none() || !got_l {
                match rx.recv_timeout(Duration::from_secs(5)) {
                    Ok(Ev::Spawned(_, hh)) => h = Some(hh),
                    Ok(Ev::LoopHandled(_)) => got_l = true,
                    Ok(_) => {}
                    Err(_) => {
                        stuck = true;
                        break;
                    }
                }
            }
            if stuck {
                x.log.push(format!("the probe formatting({}) after quiescence got no answer within 5 s", k));
                x.deadlock = true;
                break;
            }
            let _ = h.unwrap().join();
            let mut got = None;
            while let Ok(m) = client.receiver.try_recv() {
                if let Message::Response(r) = m {
                    got = r.result.and_then(|v| v[0]["newText"].as_str().map(|s| s.to_string()));
                }
            }
            x.final_fmt.insert(k, got);
        }
        if !x.deadlock {
            req_id += 1;
            client.sender.send(Message::Request(Request::new(req_id.into(), "shutdown".into(), ()))).unwrap();
            loop {
                if let Ev::Spawned(_, h) = wait(&rx) {
                    let _ = h.join();
                    break;
                }
            }
            client.sender.send(Message::Notification(Notification::new("exit".into(), ()))).unwrap();
            let _ = server.join();
        }
    } else {
        // leave the stuck threads behind; the process-level horizon is the backstop
        drop(client);
    }
    hooks::install(None);
    x
}

/// expected answers, computed on fresh servers (R8): library versions after each notification
struct Expected {
    versions: Vec<HashMap<String, String>>,
}

impl Expected {
    fn new(script: &[(String, Msg)]) -> Expected {
        let mut v = vec![initial_lib()];
        for (_, m) in script {
            if let Msg::Chg(k, t) | Msg::Save(k, t) = m {
                let mut n = v.last().unwrap().clone();
                n.insert(k.to_string(), t.to_string());
                v.push(n);
            } else if let Msg::ChgEmpty(_) = m {
                // a notification that changes nothing: the same library once more
                let n = v.last().unwrap().clone();
                v.push(n);
            }
        }
        Expected { versions: v }
    }
    fn answer(&self, version: usize, m: &Msg) -> Value {
        let s = server(&self.versions[version], "");
        match m {
            Msg::Fmt(k) => serde_json::to_value(s.handle_document_formatting(fmt_params(k))).unwrap(),
            Msg::Refs(k) => serde_json::to_value(s.handle_references(ReferenceParams {
                text_document_position: TextDocumentPositionParams { text_document: TextDocumentIdentifier { uri: uri(k) }, position: Position::new(0, 0) },
                context: ReferenceContext { include_declaration: false },
                work_done_progress_params: Default::default(),
                partial_result_params: Default::default(),
            }))
            .unwrap(),
            _ => Value::Null,
        }
    }
    fn final_fmt(&self, k: &str) -> Option<String> {
        let lib = self.versions.last().unwrap();
        if !lib.contains_key(k) {
            return None;
        }
        Some(format_on(&server(lib, ""), k))
    }
}

fn check_exec(script: &[(String, Msg)], exp: &Expected, x: &Exec) -> Vec<(String, String)> {
    let mut bad: Vec<(String, String)> = vec![];
    if x.deadlock {
        bad.push(("deadlock".into(), format!("no actor can make progress although work remains ({})", x.log.last().cloned().unwrap_or_default())));
        return bad;
    }
    for n in &x.loop_panics {
        // (a didChange without content changes carries no edit: that its handler panics loses nothing)
        if n.starts_with('E') {
            continue;
        }
        bad.push(("message-dropped".into(), format!("the loop's panic guard swallowed message {}", n)));
    }
    for (k, got) in &x.final_fmt {
        let want = exp.final_fmt(k);
        if *got != want {
            bad.push(("final-state".into(), format!("after quiescence note {} formats to {:?}, the last text sent formats to {:?}", k, got, want)));
        }
    }
    for (id, pos) in &x.request_pos {
        let rs = x.responses.get(id).cloned().unwrap_or_default();
        if rs.len() != 1 {
            bad.push(("responses".into(), format!("request #{} ({}) got {} responses", id, script[*pos].0, rs.len())));
            continue;
        }
        if let Msg::Act(_) = script[*pos].1 {
            continue;
        }
        // notifications before the request in the script
        let j = script[..*pos].iter().filter(|(_, m)| !is_request(m)).count();
        let ok = (j..exp.versions.len()).any(|v| exp.answer(v, &script[*pos].1) == rs[0]);
        if !ok {
            bad.push((
                "stale-answer".into(),
                format!("request #{} ({}) issued after {} notification(s) was answered {} which matches no state at or after that point", id, script[*pos].0, j, trunc(&rs[0].to_string(), 200)),
            ));
        }
    }
    bad
}

pub struct C11;

fn max_len(tier: Tier) -> usize {
    match tier {
        Tier::Quick => 3,
        Tier::Thorough => 4,
    }
}

impl Engine for C11 {
    fn id(&self) -> &'static str {
        "C11"
    }
    fn rule(&self) -> String {
        format!(
            "client scripts = all message sequences up to the bound over {:?} that contain at least one request followed later by a notification; for each script every interleaving of the real message loop with the real per-request worker threads (pause points: worker start / computing / computed / responded / exit; loop: one message at a time) is executed on the real main_loop with one actor running at a time (DFS with prefix replay; commuting worker-worker steps explored in one order). Oracle per schedule: no message swallowed by the loop's panic guard, exactly one response per request, every response equals the fresh-server answer of some library version at or after the notifications that precede the request, and after quiescence every note formats like the last text sent. non-trivial = a notification met a live worker",
            ALPHABET.iter().map(|a| a.0).collect::<Vec<_>>()
        )
    }
    fn bound(&self, tier: Tier) -> String {
        format!("scripts of <= {} messages plus all bursts (formatting or code-action request, 3 notifications), <= 3 concurrent workers, all interleavings incl. client sends that pile up behind a blocked loop (no preemption bound)", max_len(tier))
    }
    fn assumptions(&self) -> Vec<String> {
        vec![
            "document versions carried by didChange are not monotone within a script (10, 1, 8, 3, ...): editors restart them on re-open, and the statement's `last text sent` is about arrival order".into(),
            "request handlers take &Server and do not write shared state, so steps of different workers commute; the order of responses on the channel is not observed".into(),
            "scheduling inside a handler (rayon) is not controlled; it does not touch the state shared between loop and workers".into(),
            "a worker that has not yet taken the server is not scheduled while the loop waits to write (writer-preferring lock; conservative for other policies)".into(),
        ]
    }
    fn shards(&self, _tier: Tier) -> usize {
        16
    }
    fn enumerate(&self, tier: Tier, emit: &mut dyn FnMut(&str)) {
        // bursts: one request in flight and three notifications behind it (they can pile up in the
        // inbox while the loop waits for the worker); part of both tiers
        let reqs: Vec<&str> = ALPHABET.iter().filter(|m| is_request(&m.1)).map(|m| m.0).collect();
        let nots: Vec<&str> = ALPHABET.iter().filter(|m| !is_request(&m.1)).map(|m| m.0).collect();
        for r in reqs.iter().filter(|r| **r != "R2") {
            for a in &nots {
                for b in &nots {
                    for c in &nots {
                        emit(&format!("{},{},{},{}", r, a, b, c));
                    }
                }
            }
        }
        let n = ALPHABET.len();
        for len in 2..=max_len(tier) {
            let total = n.pow(len as u32);
            for code in 0..total {
                let mut c = code;
                let mut idx = vec![0usize; len];
                for k in (0..len).rev() {
                    idx[k] = c % n;
                    c /= n;
                }
                let msgs: Vec<&(&str, Msg)> = idx.iter().map(|i| &ALPHABET[*i]).collect();
                // at least one request that is followed by a notification (otherwise nothing can interleave)
                let first_req = msgs.iter().position(|m| is_request(&m.1));
                let last_not = msgs.iter().rposition(|m| !is_request(&m.1));
                match (first_req, last_not) {
                    (Some(r), Some(nn)) if r < nn => {}
                    _ => continue,
                }
                if msgs.iter().filter(|m| is_request(&m.1)).count() > 3 {
                    continue;
                }
                emit(&msgs.iter().map(|m| m.0).collect::<Vec<_>>().join(","));
            }
        }
    }
    fn features(&self, _case: &str) -> Vec<String> {
        vec!["notification-while-worker-alive".into()]
    }
    fn horizon_s(&self) -> Option<u64> {
        Some(600)
    }
    fn run(&self, case: &str, _ctx: &Ctx) -> CaseResult {
        // a case may carry an explicit schedule for replay: "script@L,W0,W0,..."
        let (script_s, sched_s) = match case.split_once('@') {
            Some((a, b)) => (a, Some(b)),
            None => (case, None),
        };
        let script = parse_script(script_s);
        let exp = Expected::new(&script);
        let mut counters: BTreeMap<String, u64> = BTreeMap::new();
        let mut failures: Vec<Failure> = vec![];
        let mut steps = 0u64;
        let mut schedules = 0u64;
        let mut met = 0u64;
        let mut met_computing = 0u64;
        let mut finals: std::collections::BTreeSet<String> = Default::default();
        let mut shortest: Option<(Vec<Choice>, Vec<(String, String)>, Vec<String>)> = None;
        let mut stack: Vec<Vec<Choice>> = match sched_s {
            Some(s) => vec![s
                .split(',')
                .filter(|t| !t.is_empty())
                .map(|t| if t == "L" { Choice::L } else if t == "Q" { Choice::Q } else { Choice::W(t[1..].parse().unwrap()) })
                .collect()],
            None => vec![vec![]],
        };
        let explore = sched_s.is_none();
        let mut violating = 0u64;
        while let Some(prefix) = stack.pop() {
            let x = run_schedule(&script, &prefix);
            schedules += 1;
            steps += x.steps;
            if x.met_live_worker {
                met += 1;
            }
            if x.met_computing_worker {
                met_computing += 1;
            }
            finals.insert(format!("{:?}", x.final_fmt));
            if explore {
                for i in prefix.len()..x.choices.len() {
                    for alt in &x.enabled_at[i] {
                        if *alt > x.choices[i] {
                            let mut p = x.choices[..i].to_vec();
                            p.push(alt.clone());
                            stack.push(p);
                        }
                    }
                }
            }
            let bad = check_exec(&script, &exp, &x);
            let deadlocked = x.deadlock;
            if !bad.is_empty() {
                violating += 1;
                if shortest.as_ref().map(|s| s.0.len() > x.choices.len()).unwrap_or(true) {
                    shortest = Some((x.choices.clone(), bad, x.log.clone()));
                }
            }
            // a deadlocked execution leaves its threads behind and costs seconds: the first one of a
            // script is reported, the rest of the script's schedules are not explored
            if deadlocked {
                break;
            }
            if schedules > 2_000_000 {
                break;
            }
        }
        if let Some((choices, bad, log)) = shortest {
            let sched: Vec<String> = choices.iter().map(|c| match c { Choice::L => "L".to_string(), Choice::Q => "Q".to_string(), Choice::W(i) => format!("W{}", i) }).collect();
            // replay the recorded schedule and compare observations. The quiescent-state oracle
            // is evaluated only after every delivered message was handled and every worker joined,
            // so an observed violation is a fact about the real code even if it does not
            // reproduce (an implementation that neither waits nor fails can race below the
            // granularity of the pause points); the number of reproductions is reported.
            let mut reproduced = 0;
            for _ in 0..3 {
                let again = run_schedule(&script, &choices);
                let bad2 = check_exec(&script, &exp, &again);
                if bad2 == bad && again.log == log {
                    reproduced += 1;
                }
            }
            let mut clauses: Vec<String> = bad.iter().map(|b| b.0.clone()).collect();
            clauses.dedup();
            failures.push(Failure {
                clause: "lost-or-stale".into(),
                site: String::new(),
                features: vec!["notification-while-worker-alive".into()],
                detail: format!(
                    "script {} schedule {} ({} of {} schedules violate; clauses {}; identical on {} of 3 replays): {}; log: {}",
                    script_s,
                    sched.join(","),
                    violating,
                    schedules,
                    clauses.join("+"),
                    reproduced,
                    bad.iter().map(|b| b.1.clone()).collect::<Vec<_>>().join("; "),
                    log.join(" ")
                ),
            });
        }
        counters.insert("schedules".into(), schedules);
        counters.insert("schedules_notification_met_live_worker".into(), met);
        counters.insert("schedules_notification_met_computing_worker".into(), met_computing);
        counters.insert("violating_schedules".into(), violating);
        counters.insert("distinct_final_states_sum".into(), finals.len() as u64);
        CaseResult {
            transitions: steps,
            nontrivial: met > 0,
            outcome: if failures.is_empty() { format!("ok:{}final", finals.len()) } else { "violation".to_string() },
            failures,
            counters,
        }
    }
}
