//! C18 — outline paths, search and symbols list every heading and only real ones.
//!
//! A case is one library in the mini-syntax of `squash.rs`:
//!
//! ```text
//! 1=#T1a;##S1b;>2|2=#Dup;p2b
//! ```
//!
//! notes `key=block;block;...` separated by `|`; blocks: `#text`/`##text` headings (text may be
//! empty), `>key` block reference `[r](key)` (undefined key = missing note), `L#text` a heading
//! inside a list item, `Q#text` a heading inside a block quote, anything else a paragraph (which
//! may contain an inline link). `{i=a..b}=tmpl` stands for the notes a..=b, a block `{j=a..b}tok`
//! for the blocks tok with j = a..=b.
//!
//! Observed: `Graph::paths()`, `Database::global_search(q)`, `workspace/symbol(q)` and
//! `documentSymbol(note)` for q in {"", every heading word of the library, "zzz"}.
//!
//! Oracle (R6), independent of iwe: the headings (with lines), the sub-heading relation and the
//! block references are taken from the harness's own pulldown-cmark scan of the current texts.

use crate::core::*;
use crate::drive::*;
use crate::engines::squash::{lib_texts, parse_lib, show_texts};
use crate::oracle;
use fuzzy_matcher::skim::SkimMatcherV2;
use fuzzy_matcher::FuzzyMatcher;
use liwe::database::Database;
use liwe::graph::{Graph, GraphContext};
use liwe::model::node::NodePointer;
use lsp_types::*;
use pulldown_cmark::{Event, Parser, Tag, TagEnd};
use std::collections::{BTreeMap, BTreeSet, HashMap};

// ====================================================================== R6 model

#[derive(Debug, Clone)]
struct Head {
    key: String,
    #[allow(dead_code)]
    level: u8,
    text: String,
    line: usize,
    /// 0 = outside lists and quotes
    container_depth: usize,
    /// direct super-heading (document-level headings only), index into Model::heads
    parent: Option<usize>,
}

#[derive(Debug, Clone)]
struct RefOcc {
    from: String,
    /// nearest preceding document-level heading (the section that directly contains the reference)
    under: Option<usize>,
    target: Option<String>,
    exists: bool,
}

struct Model {
    heads: Vec<Head>,
    by_pos: HashMap<(String, usize), usize>,
    refs: Vec<RefOcc>,
    /// links (block or inline) resolving to the note
    refcount: BTreeMap<String, usize>,
    /// the heading that is the first block of the note
    primary: BTreeMap<String, usize>,
    keys: Vec<String>,
    /// notes included by a heading (anywhere in its section), closed under section-less references
    incl: Vec<BTreeSet<String>>,
}

struct NoteScan {
    /// (level, text, line, container depth)
    heads: Vec<(u8, String, usize, usize)>,
    /// (index of the nearest preceding document-level heading in `heads`, destination)
    block_refs: Vec<(Option<usize>, String)>,
    inline_links: Vec<String>,
    first_block_is_heading: bool,
}

fn scan_note(text: &str) -> NoteScan {
    let mut out = NoteScan { heads: vec![], block_refs: vec![], inline_links: vec![], first_block_is_heading: false };
    let mut depth = 0usize;
    let mut cur_head: Option<(u8, String, usize)> = None;
    let mut last_doc_head: Option<usize> = None;
    // paragraph state at document level: (number of inline pieces outside links, links seen)
    let mut para: Option<(usize, Vec<String>)> = None;
    let mut link_depth = 0usize;
    let mut first_block = true;
    for (ev, range) in Parser::new_ext(text, oracle::md_options()).into_offset_iter() {
        match ev {
            Event::Start(Tag::BlockQuote(_)) | Event::Start(Tag::Item) => {
                depth += 1;
                first_block = false;
            }
            Event::End(TagEnd::BlockQuote(_)) | Event::End(TagEnd::Item) => depth -= 1,
            Event::Start(Tag::Heading { level, .. }) => {
                if first_block && depth == 0 {
                    out.first_block_is_heading = true;
                }
                first_block = false;
                cur_head = Some((level as u8, String::new(), oracle::line_of(text, range.start)));
            }
            Event::End(TagEnd::Heading(_)) => {
                if let Some((l, t, line)) = cur_head.take() {
                    let t = t.split_whitespace().collect::<Vec<_>>().join(" ");
                    if depth == 0 {
                        last_doc_head = Some(out.heads.len());
                    }
                    out.heads.push((l, t, line, depth));
                }
            }
            Event::Start(Tag::Paragraph) => {
                first_block = false;
                para = Some((0, vec![]));
            }
            Event::End(TagEnd::Paragraph) => {
                if let Some((others, links)) = para.take() {
                    if depth == 0 && others == 0 && links.len() == 1 && !oracle::is_external(&links[0]) {
                        out.block_refs.push((last_doc_head, links[0].clone()));
                    } else {
                        for l in links {
                            if !oracle::is_external(&l) {
                                out.inline_links.push(l);
                            }
                        }
                    }
                }
            }
            Event::Start(Tag::Link { dest_url, .. }) => {
                if link_depth == 0 {
                    if let Some(p) = para.as_mut() {
                        p.1.push(dest_url.to_string());
                    } else if !oracle::is_external(&dest_url) {
                        out.inline_links.push(dest_url.to_string());
                    }
                }
                link_depth += 1;
            }
            Event::End(TagEnd::Link) => link_depth -= 1,
            Event::Text(t) | Event::Code(t) | Event::InlineHtml(t) => {
                if let Some((_, s, _)) = cur_head.as_mut() {
                    s.push_str(&t);
                }
                if link_depth == 0 {
                    if let Some(p) = para.as_mut() {
                        p.0 += 1;
                    }
                }
            }
            Event::SoftBreak | Event::HardBreak => {
                if let Some((_, s, _)) = cur_head.as_mut() {
                    s.push(' ');
                }
            }
            Event::Start(Tag::Image { .. }) => {
                if let Some(p) = para.as_mut() {
                    p.0 += 1;
                }
            }
            Event::Start(_) | Event::Rule => first_block = false,
            _ => {}
        }
    }
    out
}

/// sub-heading relation of the document-level headings: parent = nearest preceding heading of a smaller level
fn parents_of(levels: &[u8]) -> Vec<Option<usize>> {
    let mut stack: Vec<(u8, usize)> = vec![];
    let mut out = vec![];
    for (i, l) in levels.iter().enumerate() {
        while stack.last().map(|t| t.0 >= *l).unwrap_or(false) {
            stack.pop();
        }
        out.push(stack.last().map(|t| t.1));
        stack.push((*l, i));
    }
    out
}

fn build_model(texts: &HashMap<String, String>, formatted: Option<&HashMap<String, String>>, notes: &mut Vec<String>) -> Model {
    let mut keys: Vec<String> = texts.keys().cloned().collect();
    keys.sort_by(|a, b| (a.len(), a).cmp(&(b.len(), b)));
    let mut m = Model { heads: vec![], by_pos: HashMap::new(), refs: vec![], refcount: BTreeMap::new(), primary: BTreeMap::new(), keys: keys.clone(), incl: vec![] };
    for k in &keys {
        let sc = scan_note(&texts[k]);
        let base = m.heads.len();
        // document-level headings and their tree
        let doc_idx: Vec<usize> = (0..sc.heads.len()).filter(|i| sc.heads[*i].3 == 0).collect();
        let levels: Vec<u8> = doc_idx.iter().map(|i| sc.heads[*i].0).collect();
        let mut parents = parents_of(&levels);
        // "per the outline of the formatted text": the same relation computed on iwe's normalised text must
        // agree; if the formatted text has the same number of document-level headings its relation is used
        if let Some(f) = formatted.and_then(|f| f.get(k)) {
            let fs = scan_note(f);
            let fl: Vec<u8> = fs.heads.iter().filter(|h| h.3 == 0).map(|h| h.0).collect();
            let fp = parents_of(&fl);
            if fp != parents {
                if fp.len() == parents.len() {
                    notes.push(format!("outline of {} differs after formatting", k));
                    parents = fp;
                } else {
                    notes.push(format!("formatting changes the number of document-level headings of {}", k));
                }
            }
        }
        for (i, h) in sc.heads.iter().enumerate() {
            let parent = doc_idx.iter().position(|d| *d == i).and_then(|p| parents[p]).map(|pi| base + doc_idx[pi]);
            m.by_pos.insert((k.clone(), h.2), base + i);
            m.heads.push(Head { key: k.clone(), level: h.0, text: h.1.clone(), line: h.2, container_depth: h.3, parent });
        }
        if sc.first_block_is_heading && !sc.heads.is_empty() {
            m.primary.insert(k.clone(), base);
        }
        let dir = oracle::dir_of(k);
        for (under, dest) in &sc.block_refs {
            let target = oracle::resolve(&dir, dest);
            let exists = target.as_ref().map(|t| texts.contains_key(t)).unwrap_or(false);
            if exists {
                *m.refcount.entry(target.clone().unwrap()).or_insert(0) += 1;
            }
            m.refs.push(RefOcc { from: k.clone(), under: under.map(|u| base + u), target, exists });
        }
        for dest in &sc.inline_links {
            if let Some(t) = oracle::resolve(&dir, dest) {
                if texts.contains_key(&t) {
                    *m.refcount.entry(t).or_insert(0) += 1;
                }
            }
        }
    }
    // notes included by a heading: references anywhere in its section (sub-sections included), closed
    // under the section-less references of the included notes
    let sectionless: BTreeMap<String, Vec<String>> = {
        let mut s: BTreeMap<String, Vec<String>> = BTreeMap::new();
        for r in &m.refs {
            if r.exists && r.under.is_none() {
                s.entry(r.from.clone()).or_default().push(r.target.clone().unwrap());
            }
        }
        s
    };
    let n = m.heads.len();
    let mut incl: Vec<BTreeSet<String>> = vec![BTreeSet::new(); n];
    for r in &m.refs {
        if !r.exists {
            continue;
        }
        let mut h = r.under;
        while let Some(i) = h {
            incl[i].insert(r.target.clone().unwrap());
            h = m.heads[i].parent;
        }
    }
    for set in incl.iter_mut() {
        let mut stack: Vec<String> = set.iter().cloned().collect();
        while let Some(x) = stack.pop() {
            for t in sectionless.get(&x).cloned().unwrap_or_default() {
                if set.insert(t.clone()) {
                    stack.push(t);
                }
            }
        }
    }
    m.incl = incl;
    m
}

impl Model {
    fn is_doc_level(&self, h: usize) -> bool {
        self.heads[h].container_depth == 0
    }
    fn is_top(&self, h: usize) -> bool {
        self.is_doc_level(h) && self.heads[h].parent.is_none()
    }
    /// one step of a path: to a direct sub-heading, or to a top-level heading of an included note
    fn step(&self, a: usize, b: usize) -> bool {
        if self.heads[b].parent == Some(a) {
            return true;
        }
        self.is_top(b) && self.incl[a].contains(&self.heads[b].key)
    }
    /// is there a chain of headings with these texts, every step valid, that ends at `end`?
    fn chain_exists(&self, texts: &[String], end: usize) -> bool {
        if texts.is_empty() || self.heads[end].text != *texts.last().unwrap() {
            return false;
        }
        let mut cur: BTreeSet<usize> = BTreeSet::new();
        cur.insert(end);
        for t in texts[..texts.len() - 1].iter().rev() {
            let mut prev = BTreeSet::new();
            for g in 0..self.heads.len() {
                if self.heads[g].text == *t && cur.iter().any(|c| self.step(g, *c)) {
                    prev.insert(g);
                }
            }
            if prev.is_empty() {
                return false;
            }
            cur = prev;
        }
        true
    }
    /// headings reachable from the document-level headings of `key` by >= 0 steps
    fn reachable_from_note(&self, key: &str) -> BTreeSet<usize> {
        let mut seen: BTreeSet<usize> = BTreeSet::new();
        let mut stack: Vec<usize> = (0..self.heads.len()).filter(|h| self.heads[*h].key == key && self.is_doc_level(*h)).collect();
        while let Some(h) = stack.pop() {
            if !seen.insert(h) {
                continue;
            }
            for b in 0..self.heads.len() {
                if !seen.contains(&b) && self.step(h, b) {
                    stack.push(b);
                }
            }
        }
        seen
    }
    fn rank(&self, h: usize) -> usize {
        let k = &self.heads[h].key;
        if self.primary.get(k) == Some(&h) {
            self.refcount.get(k).cloned().unwrap_or(0)
        } else {
            0
        }
    }
    fn show_head(&self, h: usize) -> String {
        let x = &self.heads[h];
        format!("{}.md:{} {:?}", x.key, x.line, x.text)
    }
}

// ---------------------------------------------------------------------- input-side features

struct NoteGraph {
    /// never block-referenced
    #[allow(dead_code)]
    roots: BTreeSet<String>,
    reach_any: BTreeSet<String>,
    /// reachable from a root through a chain whose first reference stands inside a section
    reach_sec: BTreeSet<String>,
    on_cycle: BTreeSet<String>,
}

fn note_graph(m: &Model) -> NoteGraph {
    let mut edges: BTreeMap<String, Vec<(String, bool)>> = BTreeMap::new();
    let mut referenced: BTreeSet<String> = BTreeSet::new();
    for r in &m.refs {
        if r.exists {
            let t = r.target.clone().unwrap();
            referenced.insert(t.clone());
            edges.entry(r.from.clone()).or_default().push((t, r.under.is_some()));
        }
    }
    let roots: BTreeSet<String> = m.keys.iter().filter(|k| !referenced.contains(*k)).cloned().collect();
    let bfs = |start: Vec<String>| -> BTreeSet<String> {
        let mut seen: BTreeSet<String> = BTreeSet::new();
        let mut stack = start;
        while let Some(x) = stack.pop() {
            if seen.insert(x.clone()) {
                for (t, _) in edges.get(&x).cloned().unwrap_or_default() {
                    stack.push(t);
                }
            }
        }
        seen
    };
    let reach_any = bfs(roots.iter().cloned().collect());
    let mut first: Vec<String> = vec![];
    for r in &roots {
        for (t, sec) in edges.get(r).cloned().unwrap_or_default() {
            if sec {
                first.push(t);
            }
        }
    }
    let mut reach_sec = bfs(first);
    reach_sec.extend(roots.iter().cloned());
    let mut on_cycle = BTreeSet::new();
    for k in &m.keys {
        let succ: Vec<String> = edges.get(k).cloned().unwrap_or_default().into_iter().map(|e| e.0).collect();
        if bfs(succ).contains(k) {
            on_cycle.insert(k.clone());
        }
    }
    NoteGraph { roots, reach_any, reach_sec, on_cycle }
}

fn lib_features(m: &Model, ng: &NoteGraph) -> Vec<String> {
    let mut f: BTreeSet<String> = BTreeSet::new();
    for r in &m.refs {
        if !r.exists {
            f.insert("dangling-reference".into());
            continue;
        }
        if r.target.as_ref() == Some(&r.from) {
            f.insert("self-block-reference".into());
        }
        if r.under.is_none() {
            f.insert("reference-outside-section".into());
        }
    }
    if m.keys.iter().any(|k| ng.on_cycle.contains(k) && !m.refs.iter().any(|r| r.exists && r.from == *k && r.target.as_ref() == Some(k)))
        || m.keys.iter().filter(|k| ng.on_cycle.contains(*k)).count() > 1
    {
        f.insert("block-reference-cycle".into());
    }
    let mut texts: Vec<&String> = m.heads.iter().filter(|h| h.container_depth == 0).map(|h| &h.text).collect();
    texts.sort();
    if texts.windows(2).any(|w| w[0] == w[1]) {
        f.insert("duplicate-heading-text".into());
    }
    for h in &m.heads {
        if h.text.is_empty() {
            f.insert("empty-heading".into());
        }
        if h.container_depth > 0 {
            f.insert("heading-in-container".into());
        }
    }
    if m.heads.iter().filter(|h| h.container_depth == 0).count() > 100 {
        f.insert("headings>100".into());
    }
    if m.refcount.values().any(|v| *v > 0) && m.refs.iter().all(|r| !r.exists) {
        f.insert("inline-references-only".into());
    }
    f.into_iter().collect()
}

// ====================================================================== engine

pub struct C18;

fn bucket(n: usize) -> &'static str {
    match n {
        0 => "0",
        1..=2 => "1-2",
        3..=6 => "3-6",
        7..=20 => "7-20",
        21..=100 => "21-100",
        _ => ">100",
    }
}

fn ws_params(q: &str) -> WorkspaceSymbolParams {
    WorkspaceSymbolParams { query: q.into(), work_done_progress_params: Default::default(), partial_result_params: Default::default() }
}

struct Observed {
    /// Graph::paths(): per path the (key, line, text) of every element
    paths: Vec<Vec<(String, Option<usize>, String)>>,
    /// per query: (search_text, key, line, root flag, elements of the path)
    search: Vec<(String, Vec<(String, String, u32, bool, Vec<(String, Option<usize>, String)>)>)>,
    /// all search paths of the graph (candidate universe for the cap): (search_text, elements)
    universe: Vec<(String, Vec<(String, Option<usize>, String)>)>,
    /// per query: (name, key, line)
    ws: Vec<(String, Vec<(String, String, u32)>)>,
    /// per note: (name, key, line)
    ds: Vec<(String, Vec<(String, String, u32)>)>,
    formatted: HashMap<String, String>,
}

fn observe(texts: &HashMap<String, String>, keys: &[String], queries: &[String], from: Option<&HashMap<String, String>>) -> Observed {
    // a library may be reached by editing another one (long-lived graph): every note whose text
    // differs is updated, in key order
    let mut changed: Vec<&String> = match from {
        Some(f) => texts.keys().filter(|k| f.get(*k) != Some(&texts[*k])).collect(),
        None => vec![],
    };
    changed.sort();
    let mut db = Database::new(from.unwrap_or(texts).clone(), true, opts(""));
    for k in &changed {
        db.update_document(k.as_str().into(), texts[*k].clone());
    }
    let g: &Graph = db.graph();
    let elems = |ids: Vec<u64>| -> Vec<(String, Option<usize>, String)> {
        ids.iter().map(|id| (g.node(*id).node_key().to_string(), g.node_line_number(*id), g.get_text(*id).trim().to_string())).collect()
    };
    let paths = g.paths().iter().map(|p| elems(p.ids())).collect();
    let universe = g.search_paths().iter().map(|p| (p.search_text.clone(), elems(p.path.ids()))).collect();
    let mut search = vec![];
    for q in queries {
        let r = db.global_search(q);
        search.push((q.clone(), r.iter().map(|p| (p.search_text.clone(), p.key.to_string(), p.line, p.root, elems(p.path.ids()))).collect()));
    }
    let formatted: HashMap<String, String> = keys.iter().map(|k| (k.clone(), g.to_markdown(&k.as_str().into()))).collect();
    let mut s = server(from.unwrap_or(texts), "");
    for (i, k) in changed.iter().enumerate() {
        s.handle_did_change_text_document(DidChangeTextDocumentParams {
            text_document: VersionedTextDocumentIdentifier { uri: uri(k), version: i as i32 },
            content_changes: vec![TextDocumentContentChangeEvent { range: None, range_length: None, text: texts[*k].clone() }],
        });
    }
    let mut ws = vec![];
    for q in queries {
        let v = match s.handle_workspace_symbols(ws_params(q)) {
            WorkspaceSymbolResponse::Flat(v) => v.iter().map(|x| (x.name.clone(), key_of_uri(&x.location.uri), x.location.range.start.line)).collect(),
            _ => vec![],
        };
        ws.push((q.clone(), v));
    }
    let mut ds = vec![];
    for k in keys {
        let v = s
            .handle_document_symbols(DocumentSymbolParams {
                text_document: TextDocumentIdentifier { uri: uri(k) },
                work_done_progress_params: Default::default(),
                partial_result_params: Default::default(),
            })
            .iter()
            .map(|x| (x.name.clone(), key_of_uri(&x.location.uri), x.location.range.start.line))
            .collect();
        ds.push((k.clone(), v));
    }
    Observed { paths, search, universe, ws, ds, formatted }
}

fn queries_of(texts: &HashMap<String, String>) -> Vec<String> {
    let mut words: BTreeSet<String> = BTreeSet::new();
    let mut keys: Vec<&String> = texts.keys().collect();
    keys.sort();
    for k in keys {
        for h in scan_note(&texts[k]).heads {
            for w in h.1.split_whitespace() {
                words.insert(w.to_string());
            }
        }
    }
    let mut q = vec![String::new()];
    // at most 6 title words (the 120-heading libraries would otherwise ask 120 queries)
    let ws: Vec<String> = words.into_iter().collect();
    if ws.len() <= 6 {
        q.extend(ws);
    } else {
        let n = ws.len();
        for i in [0, 1, n / 3, n / 2, n - 2, n - 1] {
            if !q.contains(&ws[i]) {
                q.push(ws[i].clone());
            }
        }
    }
    q.push("zzz".into());
    q
}

fn run_case(case: &str) -> CaseResult {
    // "A~>B": library B reached from library A by updating the notes that differ
    let (from_s, case) = match case.split_once("~>") {
        Some((a, b)) => (Some(a), b),
        None => (None, case),
    };
    let from: Option<HashMap<String, String>> = from_s.map(|a| lib_texts(&parse_lib(a)));
    let notes = parse_lib(case);
    if notes.is_empty() {
        return CaseResult { outcome: "unparsable-case".into(), ..Default::default() };
    }
    let texts = lib_texts(&notes);
    let keys: Vec<String> = notes.iter().map(|n| n.0.clone()).collect();
    let queries = queries_of(&texts);
    let t2 = texts.clone();
    let k2 = keys.clone();
    let q2 = queries.clone();
    let f2 = from.clone();
    let obs = match guarded(move || observe(&t2, &k2, &q2, f2.as_ref())) {
        Ok(o) => o,
        Err(p) => {
            // a panic of the reader at import is C03's; anything later (listing the paths) fails the property
            let import_ok = guarded(|| Graph::import(&texts, opts(""))).is_ok();
            if !import_ok {
                return CaseResult { transitions: 1, outcome: "panic-skip:import".into(), ..Default::default() };
            }
            let mut mnotes = vec![];
            let m = build_model(&texts, None, &mut mnotes);
            let feats = lib_features(&m, &note_graph(&m));
            return CaseResult { transitions: 1, nontrivial: true, outcome: "panic".into(), failures: vec![panic_failure(p, &feats, &format!("listing paths/symbols of {}", trunc(&show_texts(&notes), 400)))], ..Default::default() };
        }
    };
    let mut mnotes: Vec<String> = vec![];
    let m = build_model(&texts, Some(&obs.formatted), &mut mnotes);
    let ng = note_graph(&m);
    let feats = lib_features(&m, &ng);
    let head = match from_s {
        Some(a) => format!("library {} reached by editing {}", trunc(&show_texts(&notes), 500), trunc(a, 200)),
        None => format!("library {}", trunc(&show_texts(&notes), 500)),
    };
    let mut failures: Vec<Failure> = vec![];
    let mut fail = |clause: &str, site: String, extra: &[&str], detail: String| {
        let mut f = feats.clone();
        for e in extra {
            if !f.iter().any(|x| x == e) {
                f.push(e.to_string());
            }
        }
        f.sort();
        // one failure per (clause, site, features) and case
        if !failures.iter().any(|x: &Failure| x.clause == clause && x.site == site && x.features == f) {
            failures.push(Failure { clause: clause.into(), site, features: f, detail: format!("{}: {}", head, detail) });
        }
    };
    let doc_heads: Vec<usize> = (0..m.heads.len()).filter(|h| m.is_doc_level(*h)).collect();

    // map an observed element to a heading of the model
    let locate = |e: &(String, Option<usize>, String)| -> Result<usize, String> {
        match e.1.and_then(|l| m.by_pos.get(&(e.0.clone(), l))) {
            Some(h) => Ok(*h),
            None => {
                if m.heads.iter().any(|h| h.key == e.0 && h.text == e.2) {
                    Err("line".into())
                } else {
                    Err("not-a-heading".into())
                }
            }
        }
    };
    // soundness / names / lines of one chain; returns the located headings
    let check_chain = |front: &str, elems: &[(String, Option<usize>, String)], fail: &mut dyn FnMut(&str, String, &[&str], String)| -> Option<Vec<usize>> {
        let mut hs = vec![];
        for e in elems {
            match locate(e) {
                Ok(h) => {
                    if m.heads[h].text != e.2 {
                        fail("name", format!("{}:element-text", front), &[], format!("path element at {}.md:{:?} is named {:?}, the heading there reads {:?}", e.0, e.1, e.2, m.heads[h].text));
                    }
                    hs.push(h)
                }
                Err(kind) if kind == "line" => {
                    fail("line", format!("{}:element-line", front), &[], format!("path element {:?} of {}.md is reported at line {:?}; no heading starts there (headings: {:?})", e.2, e.0, e.1, m.heads.iter().filter(|h| h.key == e.0).map(|h| (h.line, h.text.clone())).collect::<Vec<_>>()));
                    return None;
                }
                Err(_) => {
                    fail("soundness", format!("{}:not-a-heading", front), &[], format!("path element {:?} at {}.md:{:?} is not a current heading", e.2, e.0, e.1));
                    return None;
                }
            }
        }
        for w in hs.windows(2) {
            if !m.step(w[0], w[1]) {
                let kind = if m.heads[w[0]].key == m.heads[w[1]].key { "same-note" } else { "across-notes" };
                fail(
                    "soundness",
                    format!("{}:step:{}", front, kind),
                    &[],
                    format!("listed path {:?}: {} -> {} is neither heading -> sub-heading nor heading -> top-level heading of a note included by block reference", elems.iter().map(|e| e.2.clone()).collect::<Vec<_>>(), m.show_head(w[0]), m.show_head(w[1])),
                );
                return None;
            }
        }
        Some(hs)
    };

    // ---------------- Graph::paths()
    let mut ends: BTreeSet<usize> = BTreeSet::new();
    let mut container_listed = 0;
    for p in &obs.paths {
        if p.is_empty() {
            fail("soundness", "paths:empty-path".into(), &[], "an empty path is listed".into());
            continue;
        }
        if let Some(hs) = check_chain("paths", p, &mut fail) {
            ends.insert(*hs.last().unwrap());
            if hs.iter().any(|h| !m.is_doc_level(*h)) {
                container_listed += 1;
            }
        }
    }
    let mut missing = 0;
    for h in &doc_heads {
        if !ends.contains(h) {
            missing += 1;
            let k = &m.heads[*h].key;
            let mut extra: Vec<&str> = vec![];
            if !ng.reach_any.contains(k) {
                extra.push("note-unreachable-from-unreferenced-note");
            } else if !ng.reach_sec.contains(k) {
                extra.push("note-reachable-only-through-sectionless-reference");
            }
            if ng.on_cycle.contains(k) {
                extra.push("note-on-reference-cycle");
            }
            fail(
                "completeness",
                "paths".into(),
                &extra,
                format!(
                    "heading {} ends no path of Graph::paths(); listed paths: {:?}",
                    m.show_head(*h),
                    obs.paths.iter().take(12).map(|p| p.iter().map(|e| e.2.clone()).collect::<Vec<_>>().join(" > ")).collect::<Vec<_>>()
                ),
            );
        }
    }

    // ---------------- global_search
    let matcher = SkimMatcherV2::default();
    for (q, res) in &obs.search {
        if res.len() > 100 {
            fail("cap", "global_search".into(), &[], format!("query {:?} returned {} entries", q, res.len()));
        }
        let mut keyed: Vec<(i64, usize, usize)> = vec![];
        let mut ok = true;
        for (st, key, line, _root, elems) in res {
            match check_chain("global_search", elems, &mut fail) {
                Some(hs) => {
                    let last = *hs.last().unwrap();
                    let my_text = hs.iter().map(|h| m.heads[*h].text.clone()).collect::<Vec<_>>().join(" ");
                    if my_text != *st {
                        fail("name", "global_search:search-text".into(), &[], format!("search text {:?}, heading texts of the chain {:?}", st, my_text));
                    }
                    if m.heads[last].key != *key || m.heads[last].line != *line as usize {
                        fail("line", "global_search:entry".into(), &[], format!("entry {:?} points to {}.md:{}, its last heading is {}", st, key, line, m.show_head(last)));
                    }
                    let score = if q.is_empty() { 0 } else { matcher.fuzzy_match(&my_text, q).unwrap_or(0) };
                    keyed.push((score, my_text.len(), m.rank(last)));
                }
                None => ok = false,
            }
        }
        if ok {
            // documented order: score desc, length asc, rank desc; empty query: rank desc, length asc
            let better = |a: &(i64, usize, usize), b: &(i64, usize, usize)| -> bool {
                if q.is_empty() {
                    (b.2, std::cmp::Reverse(b.1)) > (a.2, std::cmp::Reverse(a.1))
                } else {
                    (b.0, std::cmp::Reverse(b.1), b.2) > (a.0, std::cmp::Reverse(a.1), a.2)
                }
            };
            for i in 1..keyed.len() {
                if better(&keyed[i - 1], &keyed[i]) {
                    fail(
                        "order",
                        format!("global_search:{}", if q.is_empty() { "empty-query" } else { "query" }),
                        &[],
                        format!("query {:?}: entry {} {:?} (score, length, references)={:?} is listed before {:?} {:?}", q, i - 1, res[i - 1].0, keyed[i - 1], res[i].0, keyed[i]),
                    );
                    break;
                }
            }
            // entries that tie on the sort key keep the order of the outline listing (note key, line,
            // text): the sort is documented as stable over Graph::search_paths, and an order of ties
            // that depends on the sorting algorithm shuffles results between similar queries
            for i in 1..keyed.len() {
                if !better(&keyed[i - 1], &keyed[i]) && !better(&keyed[i], &keyed[i - 1]) {
                    let a = (&res[i - 1].1, res[i - 1].2, &res[i - 1].0);
                    let b = (&res[i].1, res[i].2, &res[i].0);
                    if a > b {
                        fail(
                            "order",
                            format!("global_search:{}:ties", if q.is_empty() { "empty-query" } else { "query" }),
                            &[],
                            format!("query {:?}: entries {} and {} tie on {:?} but {:?} (note, line, text) is listed before {:?}", q, i - 1, i, keyed[i], a, b),
                        );
                        break;
                    }
                }
            }
            // the cut keeps the best: nothing left out may be strictly better than the last entry kept
            if res.len() >= 100 || obs.universe.len() > res.len() {
                let listed: Vec<&Vec<(String, Option<usize>, String)>> = res.iter().map(|r| &r.4).collect();
                if let Some(worst) = keyed.last() {
                    for (st, elems) in &obs.universe {
                        if listed.contains(&elems) {
                            continue;
                        }
                        let hs: Vec<usize> = elems.iter().filter_map(|e| locate(e).ok()).collect();
                        if hs.len() != elems.len() {
                            continue;
                        }
                        let my_text = hs.iter().map(|h| m.heads[*h].text.clone()).collect::<Vec<_>>().join(" ");
                        let score = if q.is_empty() { 0 } else { matcher.fuzzy_match(&my_text, q).unwrap_or(0) };
                        let k = (score, my_text.len(), m.rank(*hs.last().unwrap()));
                        if res.len() < 100 {
                            fail("cap", "global_search:dropped-below-cap".into(), &[], format!("query {:?}: {} entries returned, yet path {:?} is left out", q, res.len(), st));
                            break;
                        }
                        if better(worst, &k) {
                            fail("cap", "global_search:cut-not-best".into(), &[], format!("query {:?}: path {:?} {:?} is cut off although it ranks before the last entry kept {:?}", q, st, k, worst));
                            break;
                        }
                    }
                }
            }
        }
        // completeness of the search paths (only where the cap cannot bite)
        if q.is_empty() && obs.universe.len() < 100 {
            let got: BTreeSet<(String, usize)> = res.iter().map(|r| (r.1.clone(), r.2 as usize)).collect();
            for h in &doc_heads {
                if !got.contains(&(m.heads[*h].key.clone(), m.heads[*h].line)) && ends.contains(h) {
                    fail("completeness", "global_search".into(), &[], format!("heading {} ends a path of Graph::paths() but no entry of the empty search", m.show_head(*h)));
                }
            }
        }
    }

    // ---------------- workspace/symbol
    for (q, syms) in &obs.ws {
        if syms.len() > 100 {
            fail("cap", "workspace/symbol".into(), &[], format!("query {:?} returned {} symbols", q, syms.len()));
        }
        for (name, key, line) in syms {
            match m.by_pos.get(&(key.clone(), *line as usize)) {
                None => {
                    fail("line", "workspace/symbol".into(), &[], format!("query {:?}: symbol {:?} points to {}.md:{}; no heading starts there", q, name, key, line));
                }
                Some(h) => {
                    let parts: Vec<String> = name.split(" • ").map(|s| s.to_string()).collect();
                    if m.heads[*h].text != *parts.last().unwrap() {
                        fail("name", "workspace/symbol:last".into(), &[], format!("query {:?}: symbol {:?} points to {}, which reads differently", q, name, m.show_head(*h)));
                    } else if !m.chain_exists(&parts, *h) {
                        fail("soundness", "workspace/symbol:chain".into(), &[], format!("query {:?}: symbol {:?} at {}: no chain of headings with these names (sub-heading / included-note steps) ends there", q, name, m.show_head(*h)));
                    }
                }
            }
        }
    }

    // ---------------- documentSymbol
    for (k, syms) in &obs.ds {
        let reach = m.reachable_from_note(k);
        for (name, key, line) in syms {
            match m.by_pos.get(&(key.clone(), *line as usize)) {
                None => {
                    fail("line", "documentSymbol".into(), &[], format!("documentSymbol({}): symbol {:?} points to {}.md:{}; no heading starts there", k, name, key, line));
                }
                Some(h) => {
                    if m.heads[*h].text != name.trim() {
                        fail("name", "documentSymbol".into(), &[], format!("documentSymbol({}): symbol {:?} points to {}", k, name, m.show_head(*h)));
                    } else if !reach.contains(h) {
                        fail("soundness", "documentSymbol:not-under-note".into(), &[], format!("documentSymbol({}): {} is not reachable from the headings of {} by sub-heading / included-note steps", k, m.show_head(*h), k));
                    }
                }
            }
        }
    }

    let transitions = 2 + 2 * queries.len() as u64 + keys.len() as u64;
    let nontrivial = m.refs.iter().any(|r| r.exists) && !doc_heads.is_empty();
    let mut cl: Vec<String> = failures.iter().map(|f| f.clause.clone()).collect();
    cl.sort();
    cl.dedup();
    let mut counters = BTreeMap::new();
    counters.insert("paths_listed".to_string(), obs.paths.len() as u64);
    counters.insert("headings".to_string(), doc_heads.len() as u64);
    counters.insert("headings_missing".to_string(), missing as u64);
    counters.insert("symbols".to_string(), obs.ws.iter().map(|x| x.1.len() as u64).sum::<u64>() + obs.ds.iter().map(|x| x.1.len() as u64).sum::<u64>());
    let outcome = format!(
        "{}|paths {}|heads {}{}{}",
        if cl.is_empty() { "ok".to_string() } else { cl.join("+") },
        bucket(obs.paths.len()),
        bucket(doc_heads.len()),
        if container_listed > 0 { "|container-heading-listed" } else { "" },
        if mnotes.is_empty() { "" } else { "|outline-differs-after-formatting" }
    );
    CaseResult { transitions, nontrivial, outcome, failures, counters }
}

// ---------------------------------------------------------------------- enumeration

fn seqs(symbols: &[&str], max_len: usize) -> Vec<Vec<String>> {
    let mut out: Vec<Vec<String>> = vec![vec![]];
    let mut frontier: Vec<Vec<String>> = vec![vec![]];
    for _ in 0..max_len {
        let mut nf = vec![];
        for f in &frontier {
            for s in symbols {
                let mut x = f.clone();
                x.push(s.to_string());
                nf.push(x);
            }
        }
        out.extend(nf.iter().cloned());
        frontier = nf;
    }
    out
}

/// concrete tokens: heading texts unique per (note, position) except `#Dup` (shared) and `#` (empty)
fn note_spec(key: usize, shape: &[String]) -> String {
    let toks: Vec<String> = shape
        .iter()
        .enumerate()
        .map(|(i, s)| {
            let c = (b'a' + i as u8) as char;
            match s.as_str() {
                "#T" => format!("#T{}{}", key, c),
                "##S" => format!("##S{}{}", key, c),
                "L#" => format!("L#L{}{}", key, c),
                "Q#" => format!("Q#Q{}{}", key, c),
                "p" => format!("p{}{}", key, c),
                x => x.to_string(),
            }
        })
        .collect();
    format!("{}={}", key, toks.join(";"))
}

fn alphabet(n: usize, rich: bool) -> Vec<String> {
    let mut a: Vec<String> = vec!["#T".into(), "##S".into(), "p".into()];
    for t in 1..=n {
        a.push(format!(">{}", t));
    }
    a.push(">9".into());
    if rich {
        a.extend(["#Dup".to_string(), "#".to_string(), "L#".to_string(), "Q#".to_string()]);
    }
    a
}

fn shapes(key: usize, n: usize, max_blocks: usize, rich: bool) -> Vec<String> {
    let a = alphabet(n, rich);
    let ar: Vec<&str> = a.iter().map(|s| s.as_str()).collect();
    seqs(&ar, max_blocks).iter().map(|s| note_spec(key, s)).collect()
}

fn cap_libs() -> Vec<String> {
    vec![
        // 120 notes with one heading each
        "{i=1..120}=#H{i}".into(),
        // ... with inline references (rank 1 for notes 2..120)
        "{i=1..120}=#H{i};see [l]({i+1})".into(),
        // one note with 120 sub-headings, referenced once, plus a second note
        "1=#T1;{j=1..120}##S{j}|2=#T2;p;>1".into(),
        // 120 notes, every third one block-referenced from a hub with differing multiplicity
        "{i=1..119}=#N{i};##M{i}|120=#Hub;>3;>3;>3;>6;>6;>9;##Sub;>12".into(),
        // different reference counts and lengths for the empty-query order
        "1=#Alpha;see [a](2) and [b](3)|2=#Be;more [c](3)|3=#Gamma long title;[x](1) text|4=#D;>3".into(),
    ]
}

impl Engine for C18 {
    fn id(&self) -> &'static str {
        "C18"
    }
    fn rule(&self) -> String {
        "every library of the bounded space is loaded into a real Database and a real Server; Graph::paths(), global_search(q), workspace/symbol(q) and documentSymbol(every note) are checked against the harness's own scan of the current texts (headings with lines, sub-heading relation by levels - cross-checked on the formatted text -, block references with the section that contains them): soundness (every element of every listed path is a current heading; every step goes to a direct sub-heading or to a top-level heading of a note included by a block reference in the section, section-less references of included notes followed transitively), completeness (every heading outside lists and quotes ends a path of Graph::paths(); where fewer than 100 paths exist also an entry of the empty search), name (heading texts, joined by ' • ' in workspace symbols), line (real line of the heading), order (fuzzy score desc, length asc, references desc; empty query: references desc, length asc; recomputed with SkimMatcherV2 and own reference counts), cap (<= 100, and nothing cut off ranks before the last entry kept). Queries: \"\", every heading word (at most 6), \"zzz\". non-trivial = the library has a block reference to an existing note and a heading".into()
    }
    fn bound(&self, tier: Tier) -> String {
        match tier {
            Tier::Quick => format!("3 notes with <= 2 blocks each over {{#T, p, >1, >2, >3}}; every 2-note library with <= 2 blocks per note over {{#T, ##S, p, >1, >2, >9}} reached from every library that differs in one note (Database::update_document and didChange); 1 note: <= 3 blocks over {{#T, ##S, p, >1, >9, #Dup, # (empty), heading in list item, heading in quote}}; 2 notes: note 1 <= 3 blocks over the same alphabet with >1,>2, note 2 <= 2 blocks, and both notes <= 3 blocks over {{#T, ##S, p, >1, >2, >9}}; plus {} libraries with > 100 headings / graded reference counts", cap_libs().len()),
            Tier::Thorough => format!("2-note libraries reached by editing one note (edited note <= 3 blocks before or after, the other <= 2); 1 note: <= 4 blocks; 2 notes: <= 3 blocks each over the full alphabet; 3 notes: <= 2 blocks each over {{#T, ##S, p, >1, >2, >3, >9}} and note 1 <= 3 blocks; plus {} libraries with > 100 headings / graded reference counts", cap_libs().len()),
        }
    }
    fn assumptions(&self) -> Vec<String> {
        vec![
            "completeness is demanded of Graph::paths() (and of the empty search where the cap cannot bite), not of the symbol handlers, which filter empty names and cap the depth by design".into(),
            "where a listed path starts is not constrained; only its steps and its elements are".into(),
            "a heading 'includes' a note if a block reference to it stands anywhere in the heading's section (sub-sections included), or in a note so included outside any section".into(),
            "entries that tie on the documented sort key must keep the order of the outline listing (note key, line, text): global_search sorts stably over Graph::search_paths; which of several tied paths survive the cut of 100 follows from that; references are counted per link (the alphabet has at most one link per paragraph)".into(),
            "documentSymbol indentation and symbol kinds are presentation".into(),
        ]
    }
    fn enumerate(&self, tier: Tier, emit: &mut dyn FnMut(&str)) {
        let thorough = tier == Tier::Thorough;
        for l in cap_libs() {
            emit(&l);
        }
        for a in shapes(1, 1, if thorough { 4 } else { 3 }, true) {
            emit(&a);
        }
        let a = shapes(1, 2, 3, true);
        let b = shapes(2, 2, if thorough { 3 } else { 2 }, true);
        for x in &a {
            for y in &b {
                emit(&format!("{}|{}", x, y));
            }
        }
        if !thorough {
            // both notes with up to 3 blocks over the plain alphabet (no duplicate/empty/container headings)
            let a = shapes(1, 2, 3, false);
            let b = shapes(2, 2, 3, false);
            for x in &a {
                for y in &b {
                    emit(&format!("{}|{}", x, y));
                }
            }
        }
        // libraries reached by editing one note of another library (the reference index and the
        // arena keep what the old text left behind)
        {
            let a = shapes(1, 2, if thorough { 3 } else { 2 }, false);
            let b = shapes(2, 2, 2, false);
            let a_old = shapes(1, 2, 2, false);
            let b_old = shapes(2, 2, if thorough { 3 } else { 2 }, false);
            for x in &a {
                for y in &b {
                    for o in &a_old {
                        if o != x {
                            emit(&format!("{}|{}~>{}|{}", o, y, x, y));
                        }
                    }
                    for o in &b_old {
                        if o != y {
                            emit(&format!("{}|{}~>{}|{}", x, o, x, y));
                        }
                    }
                }
            }
        }
        if !thorough {
            // 3 notes, <= 2 blocks each over {#T, p, >1, >2, >3}: inclusion chains through a middle note
            let sym = ["#T", "p", ">1", ">2", ">3"];
            let mk = |key: usize| -> Vec<String> { seqs(&sym, 2).iter().map(|sh| note_spec(key, sh)).collect() };
            let (a, b, c) = (mk(1), mk(2), mk(3));
            for x in &a {
                for y in &b {
                    for z in &c {
                        emit(&format!("{}|{}|{}", x, y, z));
                    }
                }
            }
        }
        if thorough {
            let a = shapes(1, 3, 3, false);
            let b = shapes(2, 3, 2, false);
            let c = shapes(3, 3, 2, false);
            for x in &a {
                for y in &b {
                    for z in &c {
                        emit(&format!("{}|{}|{}", x, y, z));
                    }
                }
            }
        }
    }
    fn features(&self, case: &str) -> Vec<String> {
        let case = case.split_once("~>").map(|x| x.1).unwrap_or(case);
        let notes = parse_lib(case);
        let texts = lib_texts(&notes);
        let mut n = vec![];
        let m = build_model(&texts, None, &mut n);
        lib_features(&m, &note_graph(&m))
    }
    fn run(&self, case: &str, _ctx: &Ctx) -> CaseResult {
        run_case(case)
    }
}
