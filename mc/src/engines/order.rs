//! C16 — results do not depend on thread count, load order or hash seeds.
//!
//! A case is one library x one configuration:
//!
//! * `<lib>|insert-order|k1,k2,..`       every permutation of `Database::insert_document` from an
//!                                        empty Database;
//! * `<lib>|new+insert|k1,k2+k3,k4`      `Database::new` on a subset, the rest inserted in every order;
//! * `<lib>|pool|N`                      `Database::new` + export + paths + search inside a rayon pool
//!                                        of N threads (1..=16), repeated (steal order is only sampled);
//! * `<lib>|hash-closure`                the build is repeated with fresh `RandomState`s until every
//!                                        iteration order of the input map and of `Graph::keys()` and
//!                                        of every multi-element reference set has been observed;
//! * `<lib>|fs-create-order|f1,f2,..`    the files are created in that order in a scratch directory,
//!                                        loaded with `liwe::fs::new_for_path`.
//!
//! The oracle is equality of a canonical dump with the dump of the reference configuration
//! (`Database::new(library)` in a pool of one thread). The dump contains exactly what the statement
//! names: formatted files, link titles, backlink SETS, outline paths (multiset), ORDERED search
//! results. Orders that the statement does not demand (order of `references` locations, of
//! `Graph::paths()`, of document symbols, of completion items) are not compared.

use crate::core::*;
use crate::drive::*;
use liwe::database::Database;
use liwe::graph::GraphContext;
use liwe::model::node::NodePointer;
use liwe::model::Key;
use lsp_types::*;
use std::collections::{BTreeMap, BTreeSet, HashMap};

pub struct C16;

// ------------------------------------------------------------------ libraries

pub struct Lib {
    pub name: &'static str,
    /// (file name relative to the library root, WITHOUT the trailing ".md" that is added on disk; text)
    pub notes: Vec<(String, String)>,
    /// input-side features (what kind of tie the library was built to contain)
    pub ties: &'static [&'static str],
}

fn own(v: &[(&str, &str)]) -> Vec<(String, String)> {
    let mut x: Vec<(String, String)> = v.iter().map(|(k, t)| (k.to_string(), t.to_string())).collect();
    x.sort();
    x
}

/// 40 notes: 4 hubs, 36 leaves with 6 distinct titles; built so that rayon has something to split.
fn wide_notes() -> Vec<(String, String)> {
    let mut v: Vec<(String, String)> = vec![];
    for h in 0..4 {
        let mut t = format!("# Hub {}\n\n", h % 2);
        for j in 0..36 {
            if j % 4 == h || (j % 3 == 0 && (j + 1) % 4 == h) {
                t.push_str(&format!("[stale title](l{:02})\n\n", j));
            }
        }
        t.push_str("## Also\n\n");
        t.push_str(&format!("[again](l{:02})\n", h));
        v.push((format!("h{}", h), t));
    }
    for j in 0..36 {
        let t = format!(
            "# Leaf {}\n\nsee [x](l{:02}) and [y](h{})\n\n## Part\n\ntext {}\n\n## Part\n\n- item [z](l{:02})\n",
            j % 6,
            (j + 1) % 36,
            j % 4,
            j % 3,
            (j + 7) % 36
        );
        v.push((format!("l{:02}", j), t));
    }
    v.sort();
    v
}

fn colliding_notes() -> Vec<(String, String)> {
    let mut v = vec![];
    let mut index = String::from("# Index\n");
    for i in 0..40 {
        v.push((format!("n{:02}", i), format!("# Plain {:02}\n\nfrom n{:02}.md\n", i, i)));
        v.push((format!("n{:02}.md", i), format!("# Double {:02}\n\nfrom n{:02}.md.md\n", i, i)));
        index.push_str(&format!("\n[x](n{:02})\n", i));
    }
    v.push(("index".into(), index));
    v.sort();
    v
}

pub fn libs() -> Vec<Lib> {
    vec![
        Lib {
            name: "dup-titles",
            notes: own(&[
                ("a", "# Same\n\ntext of a\n"),
                ("b", "# Same\n\ntext of b\n"),
                ("c", "# Same\n\n[Same](a)\n\n[Same](b)\n"),
                ("d", "# Other\n\nsee [Same](a) and [Same](b)\n\n[Same](a)\n\n[Same](b)\n"),
            ]),
            ties: &["duplicate-titles", "equal-ranks", "shared-target"],
        },
        Lib {
            name: "twin-links",
            notes: own(&[
                ("hub", "# Hub\n\n[old](t)\n\n[old](t)\n\n## Sub\n\n[older](t)\n"),
                ("t", "# T\n\n## Inner\n\npara\n"),
                ("u", "# U\n\ninline [old](t) and [old](t) again\n\nmore [T](t)\n"),
                ("v", "# V\n\n[T](t)\n"),
            ]),
            ties: &["twin-links", "shared-target", "stale-link-titles"],
        },
        Lib {
            name: "cycle",
            notes: own(&[
                ("a", "# A\n\n[B](b)\n"),
                ("b", "# B\n\n[A](a)\n"),
                ("c", "# C\n\n[A](a)\n\n## Twin\n\npara\n"),
                ("d", "# C\n\n## Twin\n\n[stale](c)\n\ninline [x](a) [y](b) [z](c)\n"),
            ]),
            ties: &["reference-cycle", "duplicate-titles", "shared-target"],
        },
        Lib {
            name: "subdirs",
            notes: own(&[
                ("index", "# Index\n\n[One](d/one)\n\n[One](e/one)\n"),
                ("d/one", "# One\n\n[Two](two)\n\nback to [Index](../index)\n"),
                ("d/two", "# Two\n\n[One](../e/one)\n"),
                ("e/one", "# One\n\ntext\n"),
                ("e/d/one", "---\ntitle: meta\n---\n\n# One\n\n[One](../one) and [One](../../d/one)\n"),
            ]),
            ties: &["sub-directories", "duplicate-titles", "front-matter"],
        },
        Lib {
            name: "shared",
            notes: own(&[
                ("p1", "# Parent\n\n[X](x)\n"),
                ("p2", "# Parent\n\n[X](x)\n"),
                ("x", "# X\n\n[Y](y)\n\n## Sec\n\ntext\n"),
                ("y", "# Y\n\n## Sec\n\ntext\n"),
                ("z", "# Z\n\ninline [X](x), [Y](y), [X](x)\n\n- item [Y](y)\n  - [X](x)\n"),
            ]),
            ties: &["shared-target", "duplicate-titles", "equal-ranks", "identical-paths"],
        },
        Lib {
            name: "two-parents",
            notes: own(&[
                ("p", "# Beta\n\n[Alpha](x)\n"),
                ("q", "# Gama\n\n[Alpha](x)\n\n## Sub\n\n[Alpha](x)\n"),
                ("x", "# Alpha\n\n## Inner\n\ntext\n"),
                ("z", "# Zeta\n\nsee [Alpha](x)\n"),
            ]),
            ties: &["shared-target", "equal-ranks"],
        },
        // headings that contain links to other notes whose text differs from the target's title:
        // anything that reads a title while other titles are still being collected shows here
        Lib {
            name: "linked-titles",
            notes: own(&[
                ("a", "# About [old b](b)\n\ntext\n"),
                ("b", "# Bee [old c](c)\n\n## Sub [old a](a)\n\ntext\n"),
                ("c", "# Sea\n\n[x](a)\n\ninline [y](b) and [z](a)\n"),
                ("d", "# Dee\n\n[stale](a)\n\n[stale](b)\n\n[stale](c)\n"),
            ]),
            ties: &["links-in-titles", "stale-link-titles", "shared-target"],
        },
        // only used by the fs dimension: 40 pairs of files that map to one key each (which file of a
        // pair becomes the note must not depend on the pool size or the schedule)
        Lib { name: "md-md-many", notes: colliding_notes(), ties: &["file-names-colliding-on-one-key"] },
        Lib { name: "wide", notes: wide_notes(), ties: &["wide", "duplicate-titles", "equal-ranks", "shared-target"] },
        // only used by the fs dimension: two FILES that liwe::fs maps to the same key
        Lib {
            name: "md-md",
            notes: own(&[("a", "# First\n\nfrom a.md\n"), ("a.md", "# Second\n\nfrom a.md.md\n"), ("b", "# B\n\n[x](a)\n")]),
            ties: &["file-names-colliding-on-one-key"],
        },
    ]
}

fn lib_named(name: &str) -> Option<Lib> {
    libs().into_iter().find(|l| l.name == name)
}

const PERM_LIBS: &[&str] = &["dup-titles", "twin-links", "cycle", "subdirs", "shared", "two-parents", "linked-titles"];
const POOL_LIBS: &[&str] = &["dup-titles", "twin-links", "cycle", "subdirs", "shared", "two-parents", "linked-titles", "wide"];
const FS_LIBS: &[&str] = &["dup-titles", "twin-links", "cycle", "subdirs", "shared", "two-parents", "linked-titles", "md-md", "md-md-many"];

fn state_of(lib: &Lib) -> HashMap<String, String> {
    // a fresh HashMap (fresh RandomState) every time
    lib.notes.iter().map(|(k, v)| (k.clone(), v.clone())).collect()
}

fn queries(lib: &Lib) -> Vec<String> {
    let mut q: BTreeSet<String> = BTreeSet::new();
    for (_, text) in &lib.notes {
        for line in text.lines() {
            if let Some(h) = line.strip_prefix('#') {
                let h = h.trim_start_matches('#').trim();
                if let Some(w) = h.split(' ').next() {
                    if !w.is_empty() {
                        q.insert(w.to_string());
                    }
                }
                if lib.name == "wide" && h.ends_with('3') {
                    q.insert(h.to_string());
                }
            }
        }
    }
    let mut v = vec![String::new()];
    v.extend(q);
    v
}

// ------------------------------------------------------------------ enumeration helpers

fn permutations(n: usize) -> Vec<Vec<usize>> {
    // lexicographic order; identity first
    fn rec(cur: &mut Vec<usize>, used: &mut Vec<bool>, n: usize, out: &mut Vec<Vec<usize>>) {
        if cur.len() == n {
            out.push(cur.clone());
            return;
        }
        for i in 0..n {
            if !used[i] {
                used[i] = true;
                cur.push(i);
                rec(cur, used, n, out);
                cur.pop();
                used[i] = false;
            }
        }
    }
    let mut out = vec![];
    rec(&mut vec![], &mut vec![false; n], n, &mut out);
    out
}

fn factorial(n: usize) -> usize {
    (1..=n).product::<usize>().max(1)
}

fn subsets_of_size(n: usize, k: usize) -> Vec<Vec<usize>> {
    let mut out = vec![];
    for mask in 0u32..(1 << n) {
        if mask.count_ones() as usize == k {
            out.push((0..n).filter(|i| mask & (1 << i) != 0).collect());
        }
    }
    out.sort();
    out
}

const MAX_POOL: usize = 16;

fn pool_reps(tier: Tier) -> usize {
    match tier {
        Tier::Quick => 12,
        Tier::Thorough => 200,
    }
}
fn order_reps(tier: Tier) -> usize {
    match tier {
        Tier::Quick => 3,
        Tier::Thorough => 16,
    }
}
/// rebuilds of the reference configuration with fresh hash seeds before a non-hash case is judged
const PRECHECK: usize = 32;
/// pool in which the insert-order configurations run (the reference runs in a pool of 1)
const INSERT_POOL: usize = 4;

fn hash_cap(tier: Tier) -> u64 {
    match tier {
        Tier::Quick => 40_000,
        Tier::Thorough => 3_000_000,
    }
}

// ------------------------------------------------------------------ canonical dump

type Dump = Vec<(String, String)>;

/// Everything the statement names, in canonical form. First word of a label = section.
fn dump_db(db: &Database, keys: &[String], qs: &[String]) -> Dump {
    let g = db.graph();
    let mut out: Dump = vec![];
    let mut gk: Vec<String> = g.keys().iter().map(|k| k.to_string()).collect();
    gk.sort();
    out.push(("keys".into(), format!("{:?}", gk)));
    // formatted files: the parallel export of the whole library
    let exported: BTreeMap<String, String> = g.export().into_iter().collect();
    out.push(("export #files".into(), format!("{:?}", exported.keys().collect::<Vec<_>>())));
    for k in keys {
        let key: Key = Key::from_file_name(k);
        if g.maybe_key(&key).is_none() {
            out.push((format!("export {}", k), "<no such key>".into()));
            continue;
        }
        out.push((format!("export {}", k), exported.get(k).cloned().unwrap_or("<absent>".into())));
        out.push((format!("export to_markdown {}", k), g.to_markdown(&key)));
        out.push((format!("title {}", k), format!("{:?}", g.get_key_title(&key))));
        // backlinks as SETS of (owner, line range)
        let b: BTreeSet<String> = g
            .get_block_references_to(&key)
            .iter()
            .map(|id| format!("{}@{:?}", g.node(*id).node_key(), g.node_line_range(*id)))
            .collect();
        let i: BTreeSet<String> = g
            .get_inline_references_to(&key)
            .iter()
            .map(|id| format!("{}@{:?}", g.node(*id).node_key(), g.node_line_range(*id)))
            .collect();
        out.push((format!("backlinks block {}", k), format!("{:?}", b)));
        out.push((format!("backlinks inline {}", k), format!("{:?}", i)));
    }
    // outline paths: multiset of (rendered text, key, line)
    let mut paths: Vec<String> = g
        .paths()
        .iter()
        .map(|p| {
            format!(
                "{} @{}:{:?}",
                p.ids().iter().map(|id| g.get_text(*id)).collect::<Vec<_>>().join(" > "),
                g.node(p.target()).node_key(),
                g.node_line_number(p.target())
            )
        })
        .collect();
    paths.sort();
    out.push(("paths".into(), format!("{:?}", paths)));
    // ORDERED search results
    for q in qs {
        out.push((
            format!("search {:?}", q),
            format!(
                "{:?}",
                db.global_search(q).iter().map(|p| (p.search_text.clone(), p.key.to_string(), p.line, p.node_rank, p.root)).collect::<Vec<_>>()
            ),
        ));
    }
    out
}

/// The same facts as the LSP server answers them (only for configurations that start from a State).
fn dump_server(s: &iwes::router::server::Server, keys: &[String], qs: &[String]) -> Dump {
    let mut out = vec![];
    for k in keys {
        let td = TextDocumentIdentifier { uri: uri(k) };
        out.push((format!("export lsp-formatting {}", k), format_on(s, k)));
        let refs: BTreeSet<String> = s
            .handle_references(ReferenceParams {
                text_document_position: TextDocumentPositionParams { text_document: td.clone(), position: Position::new(0, 0) },
                context: ReferenceContext { include_declaration: false },
                work_done_progress_params: Default::default(),
                partial_result_params: Default::default(),
            })
            .iter()
            .map(|l| format!("{}:{}-{}", key_of_uri(&l.uri), l.range.start.line, l.range.end.line))
            .collect();
        out.push((format!("backlinks lsp-references {}", k), format!("{:?}", refs)));
        let hints: BTreeSet<String> = s
            .handle_inlay_hints(InlayHintParams {
                text_document: td.clone(),
                range: Range::new(Position::new(0, 0), Position::new(1000, 0)),
                work_done_progress_params: Default::default(),
            })
            .iter()
            .map(|h| format!("{}:{}", h.position.line, match &h.label { InlayHintLabel::String(s) => s.clone(), _ => "?".into() }))
            .collect();
        out.push((format!("backlinks lsp-hints {}", k), format!("{:?}", hints)));
    }
    for q in qs {
        let r = s.handle_workspace_symbols(WorkspaceSymbolParams {
            query: q.clone(),
            work_done_progress_params: Default::default(),
            partial_result_params: Default::default(),
        });
        let v: Vec<String> = match r {
            WorkspaceSymbolResponse::Flat(v) => v.iter().map(|x| format!("{}@{}:{}", x.name, key_of_uri(&x.location.uri), x.location.range.start.line)).collect(),
            _ => vec!["<nested>".into()],
        };
        out.push((format!("search lsp-workspace/symbol {:?}", q), format!("{:?}", v)));
    }
    out
}

/// labels (sections) in which `got` differs from `reference`; only labels present in `got` are compared
fn diff(got: &Dump, reference: &Dump) -> (BTreeSet<String>, String) {
    let rm: BTreeMap<&String, &String> = reference.iter().map(|(k, v)| (k, v)).collect();
    let mut labels = BTreeSet::new();
    let mut first = String::new();
    for (k, v) in got {
        let same = rm.get(k).map(|w| *w == v).unwrap_or(false);
        if !same {
            labels.insert(k.split(' ').next().unwrap().to_string());
            if first.is_empty() {
                first = format!(
                    "{}:\n  reference: {}\n  this run:  {}",
                    k,
                    trunc(&rm.get(k).map(|s| s.to_string()).unwrap_or("<absent>".into()), 600),
                    trunc(v, 600)
                );
            }
        }
    }
    (labels, first)
}

// ------------------------------------------------------------------ configurations

fn pool(n: usize) -> rayon::ThreadPool {
    rayon::ThreadPoolBuilder::new().num_threads(n).build().expect("rayon pool")
}

/// run `f` inside a pool of exactly `n` threads; iwe's par_iter then runs in that pool (rayon uses
/// the registry of the current worker thread). Verified on every call.
fn in_pool<T: Send>(p: &rayon::ThreadPool, n: usize, f: impl FnOnce() -> T + Send) -> T {
    p.install(|| {
        assert_eq!(rayon::current_num_threads(), n, "C16 machinery: not running inside the requested pool");
        assert!(rayon::current_thread_index().is_some(), "C16 machinery: not on a pool worker thread");
        f()
    })
}

struct Observed {
    state_order: Vec<String>,
    keys_order: Vec<String>,
    /// "block <key>" / "inline <key>" -> order in which the ids came back (only sets with >= 2 elements)
    ref_orders: Vec<(String, Vec<String>)>,
}

/// Database::new on a freshly collected State (fresh RandomState), plus the observable hash orders
fn build_observed(lib: &Lib, keys: &[String]) -> (HashMap<String, String>, Database, Observed) {
    let state = state_of(lib);
    let state_order: Vec<String> = state.keys().cloned().collect();
    // a clone keeps the hasher, so Graph::import iterates the State in exactly the observed order
    let db = Database::new(state.clone(), true, opts(""));
    let g = db.graph();
    let keys_order: Vec<String> = g.keys().iter().map(|k| k.to_string()).collect();
    let mut ref_orders = vec![];
    for k in keys {
        let key = Key::from_file_name(k);
        // node ids are not part of the signature (they depend on the build order)
        let sig = |ids: Vec<u64>| -> Vec<String> { ids.iter().map(|id| format!("{}@{:?}", g.node(*id).node_key(), g.node_line_range(*id))).collect() };
        let b = g.get_block_references_to(&key);
        if b.len() >= 2 {
            ref_orders.push((format!("block {}", k), sig(b)));
        }
        let i = g.get_inline_references_to(&key);
        if i.len() >= 2 {
            ref_orders.push((format!("inline {}", k), sig(i)));
        }
    }
    (state, db, Observed { state_order, keys_order, ref_orders })
}

fn full_dump(state: &HashMap<String, String>, db: &Database, keys: &[String], qs: &[String], with_server: bool) -> Dump {
    let mut d = dump_db(db, keys, qs);
    if with_server {
        let s = server(state, "");
        d.extend(dump_server(&s, keys, qs));
    }
    d
}

/// the reference configuration and every State-based configuration: Database::new + Server::new
fn build_from_state(lib: &Lib, keys: &[String], qs: &[String], with_server: bool) -> (Dump, Observed) {
    let (state, db, o) = build_observed(lib, keys);
    (full_dump(&state, &db, keys, qs, with_server), o)
}

fn keys_of(lib: &Lib) -> Vec<String> {
    lib.notes.iter().map(|(k, _)| k.clone()).collect()
}

fn text_of<'a>(lib: &'a Lib, k: &str) -> Option<&'a String> {
    lib.notes.iter().find(|(x, _)| x == k).map(|(_, t)| t)
}

fn scratch_root() -> std::path::PathBuf {
    if let Ok(p) = std::env::var("MC_SCRATCH") {
        return p.into();
    }
    // tmpfs lists a directory in an order that depends on the creation order; ext4 (dir_index) does not
    let shm = std::path::Path::new("/dev/shm");
    if shm.is_dir() {
        let probe = shm.join(format!("mc-C16-probe-{}", std::process::id()));
        if std::fs::create_dir_all(&probe).is_ok() {
            let _ = std::fs::remove_dir(&probe);
            return shm.to_path_buf();
        }
    }
    // git-ignored scratch of the harness
    let p = std::path::PathBuf::from("/verif/target/run/C16");
    let _ = std::fs::create_dir_all(&p);
    p
}

fn list_dir_order(dir: &std::path::Path) -> Vec<String> {
    let mut out = vec![];
    if let Ok(rd) = std::fs::read_dir(dir) {
        for e in rd.flatten() {
            let p = e.path();
            let name = p.file_name().unwrap().to_string_lossy().to_string();
            if p.is_dir() {
                for x in list_dir_order(&p) {
                    out.push(format!("{}/{}", name, x));
                }
            } else {
                out.push(name);
            }
        }
    }
    out
}

/// create the files in the given order, load with liwe::fs::new_for_path
fn load_via_fs(lib: &Lib, order: &[String], tag: &str) -> (HashMap<String, String>, Vec<String>) {
    static SEQ: std::sync::atomic::AtomicU64 = std::sync::atomic::AtomicU64::new(0);
    let n = SEQ.fetch_add(1, std::sync::atomic::Ordering::SeqCst);
    let dir = scratch_root().join(format!("mc-C16-{}-{}-{:x}", std::process::id(), n, fx(tag)));
    let _ = std::fs::remove_dir_all(&dir);
    std::fs::create_dir_all(&dir).expect("scratch dir");
    for k in order {
        let p = dir.join(format!("{}.md", k));
        std::fs::create_dir_all(p.parent().unwrap()).expect("scratch sub dir");
        std::fs::write(&p, text_of(lib, k).expect("file of the library")).expect("scratch file");
    }
    let listed = list_dir_order(&dir);
    let state = liwe::fs::new_for_path(&dir);
    let _ = std::fs::remove_dir_all(&dir);
    (state, listed)
}

fn lib_description(lib: &Lib) -> String {
    if lib.notes.len() > 8 {
        return format!("library {} ({} generated notes, see wide_notes())", lib.name, lib.notes.len());
    }
    format!("library {}: {:?}", lib.name, lib.notes)
}

// ------------------------------------------------------------------ engine

impl C16 {
    fn features_of(case: &str) -> Vec<String> {
        let mut parts = case.splitn(3, '|');
        let lib = parts.next().unwrap_or("");
        let kind = parts.next().unwrap_or("");
        let mut f = vec![format!("lib:{}", lib), format!("kind:{}", kind)];
        if let Some(l) = lib_named(lib) {
            f.extend(l.ties.iter().map(|t| t.to_string()));
        }
        f.sort();
        f
    }
}

impl Engine for C16 {
    fn id(&self) -> &'static str {
        "C16"
    }
    fn rule(&self) -> String {
        format!(
            "a case = one library x one configuration. Libraries (built to contain ties: duplicate titles, equal reference ranks, two links from one note to one target, sub-directories, a note referenced from several others, a reference cycle, identical rendered paths): {:?} (4-5 notes each), 'wide' (40 generated notes, pool dimension only), 'md-md' (files a.md and a.md.md, fs dimension only). Configurations, enumerated exhaustively: (a) insert-order: every permutation of Database::insert_document from an empty Database (n!), and new+insert: Database::new on every proper non-empty subset followed by every order of inserting the rest (run in a pool of {} threads, each repeated with fresh hash seeds); (b) pool: every rayon pool size 1..={} for Database::new/Server::new + export + paths + search, every size repeated (work-stealing order is SAMPLED, not enumerated); (c) hash-closure: the build is repeated on fresh threads with fresh RandomStates until every joint iteration order of the input State map and of Graph::keys() (n!^2, n=4; the two marginals n! each for n=5 in quick, the joint in thorough) and every order of every reference set with >= 2 elements has been observed, or a cap is hit (then hash_closure_reached < hash_closure_cases in the counters); the full dump is compared for every build that shows an iteration order for the first time and for every 16th other build; (d) fs-create-order: the files are created in every order in a scratch directory and read with liwe::fs::new_for_path. Oracle: the canonical dump (formatted files via export/to_markdown/LSP formatting, titles, backlinks block+inline as SETS of (owner, line range), LSP references and inlay hints as sets, outline paths as a multiset of (rendered text, key, line), global_search and workspace/symbol results as ORDERED sequences for the queries \"\" and the first word of every title) equals the dump of the reference configuration Database::new(library) in a pool of 1. Before a non-hash case is judged the reference is rebuilt {} times with fresh seeds; if those disagree the failure is attributed to the hash seed (clause hash-seed), not to the configuration. non-trivial = the configuration differs from the reference configuration (order != sorted order, pool != 1, more than one hash order observed)",
            PERM_LIBS, INSERT_POOL, MAX_POOL, PRECHECK
        )
    }
    fn bound(&self, tier: Tier) -> String {
        format!(
            "all {} libraries; all n! insert orders and all subset/rest-order splits; pool sizes 1..={} x {} repetitions; hash closure up to {} builds per library; all creation orders of the files; reference stability pre-check {} rebuilds per case; {} repetitions per insert order",
            libs().len(),
            MAX_POOL,
            pool_reps(tier),
            hash_cap(tier),
            PRECHECK,
            order_reps(tier)
        )
    }
    fn assumptions(&self) -> Vec<String> {
        vec![
            "RandomState cannot be set; its only effect is the iteration order of std HashMaps/HashSets. The orders of the input State map, of Graph::keys() and of the reference sets (get_block/inline_references_to) are observed through public API and the build is repeated until all of them were seen (coverage closure); the iteration orders of the remaining maps (nodes_map, global_nodes_map, keys_to_ref_text, metadata, content, the outer index maps) are not observable and are covered only by the number of repetitions (they are used for lookup, extend and merge only)".into(),
            "rayon's work-stealing order inside a pool of >= 2 threads cannot be controlled by any installed tool: pool sizes are enumerated, steal order is merely re-sampled by repeating every pool size (counter pool_runs_sampled); on 4-5-note libraries rayon rarely splits at all, the 40-note 'wide' library is there to give it something to steal".into(),
            "iwe's par_iter runs in the pool under test because the whole build+dump is executed by ThreadPool::install on a worker of that pool (asserted on every call through rayon::current_num_threads and current_thread_index)".into(),
            "the order in which the OS lists a directory is not controlled: files are created in every order (on tmpfs /dev/shm if writable, where listing order follows creation order; on ext4 it is a per-filesystem hash order); the counter fs_listing_order_differs_from_reference says in how many cases the listing order actually differed from that of the reference creation order".into(),
            "not compared because the statement does not demand them: order of references locations, of Graph::paths(), of document symbols and of completion items; node ids".into(),
            "separate processes: every worker process and every replay is a separate process with its own RandomState base keys; inside a process every HashMap instance gets its own seed (std increments k0 per RandomState::new), fresh threads get fresh base keys".into(),
        ]
    }
    fn extra_coverage(&self, tier: Tier) -> serde_json::Value {
        serde_json::json!({
            "dimensions": {
                "insert_order": "exhaustive: all n! permutations and all subset/rest-order splits per library",
                "pool_size": format!("exhaustive: 1..={}", MAX_POOL),
                "work_stealing_order": format!("SAMPLED: {} repetitions per pool size and library (not controllable)", pool_reps(tier)),
                "hash_order": "coverage closure over the observable iteration orders; exhaustive iff counters.hash_closure_reached == counters.hash_closure_cases",
                "file_creation_order": "exhaustive: all n! creation orders; the listing order of the OS is observed, not controlled (counters.fs_listing_order_differs_from_reference)",
            }
        })
    }
    fn enumerate(&self, tier: Tier, emit: &mut dyn FnMut(&str)) {
        let _ = tier;
        let all = libs();
        let by_name = |n: &str| all.iter().find(|l| l.name == n).unwrap();
        // simplest first: pools, then orders, then fs, then closures
        for name in POOL_LIBS {
            for n in 1..=MAX_POOL {
                emit(&format!("{}|pool|{}", name, n));
            }
        }
        for name in PERM_LIBS {
            let lib = by_name(name);
            let keys = keys_of(lib);
            for p in permutations(keys.len()) {
                emit(&format!("{}|insert-order|{}", name, p.iter().map(|i| keys[*i].clone()).collect::<Vec<_>>().join(",")));
            }
        }
        for name in PERM_LIBS {
            let lib = by_name(name);
            let keys = keys_of(lib);
            let n = keys.len();
            for k in 1..n {
                for pre in subsets_of_size(n, k) {
                    let rest: Vec<usize> = (0..n).filter(|i| !pre.contains(i)).collect();
                    for p in permutations(rest.len()) {
                        emit(&format!(
                            "{}|new+insert|{}+{}",
                            name,
                            pre.iter().map(|i| keys[*i].clone()).collect::<Vec<_>>().join(","),
                            p.iter().map(|i| keys[rest[*i]].clone()).collect::<Vec<_>>().join(",")
                        ));
                    }
                }
            }
        }
        for name in FS_LIBS {
            let lib = by_name(name);
            let keys = keys_of(lib);
            if keys.len() > 6 {
                // too many files for every creation order: as listed and reversed (what is varied here
                // is the pool size and the schedule)
                let fwd: Vec<String> = keys.clone();
                let mut rev = keys.clone();
                rev.reverse();
                emit(&format!("{}|fs-create-order|{}", name, fwd.join(",")));
                emit(&format!("{}|fs-create-order|{}", name, rev.join(",")));
                continue;
            }
            for p in permutations(keys.len()) {
                emit(&format!("{}|fs-create-order|{}", name, p.iter().map(|i| keys[*i].clone()).collect::<Vec<_>>().join(",")));
            }
        }
        for name in PERM_LIBS {
            emit(&format!("{}|hash-closure", name));
        }
    }
    fn features(&self, case: &str) -> Vec<String> {
        C16::features_of(case)
    }
    fn schedule_dependent_failures_count(&self) -> bool {
        true
    }
    fn run(&self, case: &str, ctx: &Ctx) -> CaseResult {
        // own thread: the caller may itself be a rayon worker (mc --classes); a plain thread blocks in
        // install() instead of stealing other cases onto this stack
        let case_s = case.to_string();
        let tier = ctx.tier;
        let h = std::thread::Builder::new().stack_size(8 << 20).spawn(move || run_case(&case_s, tier)).expect("spawn");
        match h.join() {
            Ok(r) => r,
            Err(_) => CaseResult {
                transitions: 1,
                nontrivial: false,
                outcome: "machinery-panic".into(),
                failures: vec![Failure { clause: "machinery".into(), site: "case thread panicked".into(), features: C16::features_of(case), detail: format!("{:?}", take_global_panics().last()) }],
                ..Default::default()
            },
        }
    }
}

fn fail(clause: &str, labels: &BTreeSet<String>, feats: &[String], detail: String) -> Failure {
    Failure { clause: clause.into(), site: labels.iter().cloned().collect::<Vec<_>>().join("+"), features: feats.to_vec(), detail }
}

fn run_case(case: &str, tier: Tier) -> CaseResult {
    let t0 = std::time::Instant::now();
    let feats = C16::features_of(case);
    let mut parts = case.splitn(3, '|');
    let lib_name = parts.next().unwrap_or("");
    let kind = parts.next().unwrap_or("");
    let arg = parts.next().unwrap_or("");
    let lib = match lib_named(lib_name) {
        Some(l) => l,
        None => {
            return CaseResult { outcome: "bad-case".into(), failures: vec![Failure { clause: "machinery".into(), site: "unknown library".into(), features: feats, detail: case.into() }], ..Default::default() }
        }
    };
    let keys = keys_of(&lib);
    let qs = queries(&lib);
    let mut counters: BTreeMap<String, u64> = BTreeMap::new();
    let mut tr = 0u64;
    let mut failures: Vec<Failure> = vec![];
    let p1 = pool(1);

    let r = guarded(|| {
        if kind == "fs-create-order" {
            return run_fs(&lib, arg, &qs, &feats, &p1, &mut counters, &mut tr);
        }
        // ---- reference + stability of the reference under fresh hash seeds
        let (reference, _) = in_pool(&p1, 1, || build_from_state(&lib, &keys, &qs, true));
        tr += 1;
        if kind == "hash-closure" {
            return run_hash_closure(&lib, &keys, &qs, &reference, tier, &feats, &mut counters, &mut tr);
        }
        let mut unstable: BTreeSet<String> = BTreeSet::new();
        let mut first = String::new();
        for _ in 0..PRECHECK {
            let (d, _) = in_pool(&p1, 1, || build_from_state(&lib, &keys, &qs, true));
            tr += 1;
            let (l, f) = diff(&d, &reference);
            if first.is_empty() {
                first = f;
            }
            unstable.extend(l);
        }
        *counters.entry("reference_rebuilds_fresh_seeds".into()).or_insert(0) += PRECHECK as u64;
        if !unstable.is_empty() {
            return (
                "reference-unstable".to_string(),
                false,
                vec![fail(
                    "hash-seed",
                    &unstable,
                    &feats,
                    format!("{}\nthe reference configuration (Database::new in a pool of 1 thread) does not reproduce itself across {} rebuilds with fresh hash seeds; first difference: {}", lib_description(&lib), PRECHECK, first),
                )],
            );
        }
        match kind {
            "pool" => {
                let n: usize = arg.parse().expect("pool size");
                let p = pool(n);
                let reps = pool_reps(tier);
                let mut labels = BTreeSet::new();
                let mut first = String::new();
                let mut bad = 0;
                for _ in 0..reps {
                    let (d, _) = in_pool(&p, n, || build_from_state(&lib, &keys, &qs, true));
                    tr += 1;
                    let (l, f) = diff(&d, &reference);
                    if !l.is_empty() {
                        bad += 1;
                        if first.is_empty() {
                            first = f;
                        }
                        labels.extend(l);
                    }
                }
                *counters.entry("pool_sizes".into()).or_insert(0) += 1;
                *counters.entry("pool_runs_sampled".into()).or_insert(0) += reps as u64;
                *counters.entry("pool_size_verified_inside_install".into()).or_insert(0) += reps as u64;
                let mut fs = vec![];
                if !labels.is_empty() {
                    fs.push(fail(
                        "pool-size",
                        &labels,
                        &feats,
                        format!("{}\nDatabase::new + dump in a rayon pool of {} threads differs from the pool of 1 thread in {} of {} repetitions; first difference: {}", lib_description(&lib), n, bad, reps, first),
                    ));
                }
                (if labels.is_empty() { "equal".to_string() } else { format!("diff:{}", labels.iter().cloned().collect::<Vec<_>>().join("+")) }, n != 1, fs)
            }
            "insert-order" | "new+insert" => {
                let (pre, order): (Vec<String>, Vec<String>) = if kind == "insert-order" {
                    (vec![], arg.split(',').map(|s| s.to_string()).collect())
                } else {
                    let (a, b) = arg.split_once('+').expect("new+insert case");
                    (a.split(',').map(|s| s.to_string()).collect(), b.split(',').filter(|s| !s.is_empty()).map(|s| s.to_string()).collect())
                };
                let p = pool(INSERT_POOL);
                let reps = order_reps(tier);
                let mut labels = BTreeSet::new();
                let mut first = String::new();
                for _ in 0..reps {
                    let d = in_pool(&p, INSERT_POOL, || {
                        let init: HashMap<String, String> = pre.iter().map(|k| (k.clone(), text_of(&lib, k).expect("key of the library").clone())).collect();
                        let mut db = Database::new(init, true, opts(""));
                        for k in &order {
                            db.insert_document(Key::from_file_name(k), text_of(&lib, k).expect("key of the library").clone());
                        }
                        dump_db(&db, &keys, &qs)
                    });
                    tr += 1 + order.len() as u64;
                    let (l, f) = diff(&d, &reference);
                    if first.is_empty() {
                        first = f;
                    }
                    labels.extend(l);
                }
                *counters.entry(if kind == "insert-order" { "insert_permutations" } else { "new_plus_insert_splits" }.into()).or_insert(0) += 1;
                let mut fs = vec![];
                if !labels.is_empty() {
                    fs.push(fail(
                        "insert-order",
                        &labels,
                        &feats,
                        format!(
                            "{}\nDatabase::new on {:?} followed by insert_document in the order {:?} differs from Database::new(library); first difference: {}",
                            lib_description(&lib),
                            pre,
                            order,
                            first
                        ),
                    ));
                }
                let mut sorted = order.clone();
                sorted.sort();
                let nontrivial = sorted != order || !pre.is_empty();
                (if labels.is_empty() { "equal".to_string() } else { format!("diff:{}", labels.iter().cloned().collect::<Vec<_>>().join("+")) }, nontrivial, fs)
            }
            _ => ("bad-case".to_string(), false, vec![Failure { clause: "machinery".into(), site: "unknown kind".into(), features: feats.clone(), detail: case.into() }]),
        }
    });
    let (outcome, nontrivial) = match r {
        Ok((o, n, fs)) => {
            failures.extend(fs);
            (o, n)
        }
        Err(p) => {
            // C03 owns panics in general, but here the libraries are fixed and known to build: a panic
            // that appears only under some configuration IS an order/thread dependence
            failures.push(panic_failure(p, &feats, "building/dumping the library under this configuration"));
            ("panic".to_string(), false)
        }
    };
    if std::env::var("MC_C16_STATS").is_ok() {
        // development aid: `--classes` / `--one` do not print counters
        eprintln!("C16-STATS {} outcome={} transitions={} nontrivial={} wall_ms={} counters={:?}", case, outcome, tr, nontrivial, t0.elapsed().as_millis(), counters);
    }
    CaseResult { transitions: tr, nontrivial, outcome, failures, counters }
}

fn run_fs(
    lib: &Lib,
    arg: &str,
    qs: &[String],
    feats: &[String],
    p1: &rayon::ThreadPool,
    counters: &mut BTreeMap<String, u64>,
    tr: &mut u64,
) -> (String, bool, Vec<Failure>) {
    let order: Vec<String> = arg.split(',').map(|s| s.to_string()).collect();
    let sorted = keys_of(lib);
    // keys the loaded library is expected to have (what liwe::fs makes of the file names)
    // the directory is read inside a pool of INSERT_POOL threads (new_for_path reads the files with par_iter)
    let p4 = pool(INSERT_POOL);
    let (ref_state, ref_listing) = in_pool(&p4, INSERT_POOL, || load_via_fs(lib, &sorted, "ref"));
    let mut dump_keys: Vec<String> = ref_state.keys().cloned().collect();
    dump_keys.sort();
    let dump_of = |state: &HashMap<String, String>| -> Dump {
        let mut sorted_state: Vec<(&String, &String)> = state.iter().collect();
        sorted_state.sort();
        let mut d: Dump = vec![("state".into(), format!("{:?}", sorted_state))];
        // re-collected: a clone would keep the hasher (and so the iteration order) of `state`
        let fresh: HashMap<String, String> = state.iter().map(|(k, v)| (k.clone(), v.clone())).collect();
        let db = Database::new(fresh, true, opts(""));
        d.extend(dump_db(&db, &dump_keys, qs));
        for k in &dump_keys {
            d.push((format!("state content {}", k), format!("{:?}", db.get_document(&Key::from_file_name(k)))));
        }
        d
    };
    let reference = in_pool(p1, 1, || dump_of(&ref_state));
    let mut unstable: BTreeSet<String> = BTreeSet::new();
    let mut first_unstable = String::new();
    for _ in 0..PRECHECK {
        let d = in_pool(p1, 1, || dump_of(&ref_state));
        *tr += 1;
        let (l, f) = diff(&d, &reference);
        if first_unstable.is_empty() {
            first_unstable = f;
        }
        unstable.extend(l);
    }
    *counters.entry("reference_rebuilds_fresh_seeds".into()).or_insert(0) += PRECHECK as u64;
    if !unstable.is_empty() {
        return (
            "reference-unstable".to_string(),
            false,
            vec![fail(
                "hash-seed",
                &unstable,
                feats,
                format!("{}
the reference configuration (files created in sorted order, loaded, Database::new in a pool of 1 thread) does not reproduce itself across {} rebuilds with fresh hash seeds; first difference: {}", lib_description(lib), PRECHECK, first_unstable),
            )],
        );
    }
    let (state, listing) = in_pool(&p4, INSERT_POOL, || load_via_fs(lib, &order, arg));
    let d = in_pool(p1, 1, || dump_of(&state));
    *tr += 4;
    *counters.entry("fs_creation_orders".into()).or_insert(0) += 1;
    if listing != ref_listing {
        *counters.entry("fs_listing_order_differs_from_reference".into()).or_insert(0) += 1;
    }
    let (labels, first) = diff(&d, &reference);
    let mut fs = vec![];
    if !labels.is_empty() {
        fs.push(fail(
            "file-read-order",
            &labels,
            feats,
            format!(
                "{}\nfiles created in the order {:?} (directory listed as {:?}) and loaded with liwe::fs::new_for_path give a different result than created in the order {:?} (listed as {:?}); first difference: {}",
                lib_description(lib),
                order,
                listing,
                sorted,
                ref_listing,
                first
            ),
        ));
    }
    // the same directory read in pools of other sizes (the reader hands the files to rayon)
    // only for the library with many files: with a handful of files one thread takes them all on a
    // quiet machine, and a difference seen under load would not show again on replay
    if fs.is_empty() && sorted.len() > 6 {
        // (which thread reads which file is up to rayon: every pool size is loaded several times, so
        // that a result that depends on the schedule shows with overwhelming probability, here and
        // again on replay)
        'pools: for ps in [1usize, 2, 16] {
          for rep in 0..6 {
            let pp = pool(ps);
            let (state_p, _) = in_pool(&pp, ps, || load_via_fs(lib, &order, &format!("{}-pool{}-{}", arg, ps, rep)));
            let dp = in_pool(p1, 1, || dump_of(&state_p));
            *tr += 2;
            *counters.entry("fs_loads_in_other_pools".into()).or_insert(0) += 1;
            let (labels_p, first_p) = diff(&dp, &reference);
            if !labels_p.is_empty() {
                let _ = &labels_p;
                fs.push(fail(
                    "pool-size",
                    &BTreeSet::new(),
                    feats,
                    format!("{}\nthe directory loaded with liwe::fs::new_for_path in a pool of {} threads (load {} of 6) differs from the load in a pool of {}; first difference: {}", lib_description(lib), ps, rep + 1, INSERT_POOL, first_p),
                ));
                break 'pools;
            }
          }
        }
    }
    (if labels.is_empty() && fs.is_empty() { "equal".to_string() } else { format!("diff:{}", fs.iter().map(|f| f.site.clone()).collect::<Vec<_>>().join("+")) }, order != sorted, fs)
}

fn run_hash_closure(
    lib: &Lib,
    keys: &[String],
    qs: &[String],
    reference: &Dump,
    tier: Tier,
    feats: &[String],
    counters: &mut BTreeMap<String, u64>,
    tr: &mut u64,
) -> (String, bool, Vec<Failure>) {
    let n = keys.len();
    let nf = factorial(n);
    let want_joint = n <= 4 || tier == Tier::Thorough;
    let mut state_orders: BTreeSet<Vec<String>> = BTreeSet::new();
    let mut keys_orders: BTreeSet<Vec<String>> = BTreeSet::new();
    let mut joint: BTreeSet<(Vec<String>, Vec<String>)> = BTreeSet::new();
    let mut ref_orders: BTreeMap<String, (usize, BTreeSet<Vec<String>>)> = BTreeMap::new();
    let mut labels: BTreeSet<String> = BTreeSet::new();
    let mut first = String::new();
    let mut bad = 0u64;
    let mut builds = 0u64;
    let cap = hash_cap(tier);
    const BATCH: usize = 64;
    /// a build whose observable orders were all seen before is dumped only every SAMPLE-th time
    /// (it then only samples the unobservable maps)
    const SAMPLE: u64 = 16;
    let mut dumps = 0u64;
    let mut closed = false;
    while builds < cap && !closed {
        // a fresh thread (fresh RandomState base keys) per batch: a new pool of one thread
        let p = pool(1);
        in_pool(&p, 1, || {
            for _ in 0..BATCH {
                let (state, db, o) = build_observed(lib, keys);
                builds += 1;
                let mut new = state_orders.insert(o.state_order.clone());
                new |= keys_orders.insert(o.keys_order.clone());
                new |= joint.insert((o.state_order.clone(), o.keys_order.clone()));
                for (name, sig) in &o.ref_orders {
                    let e = ref_orders.entry(name.clone()).or_insert((sig.len(), BTreeSet::new()));
                    new |= e.1.insert(sig.clone());
                }
                if new || builds % SAMPLE == 0 {
                    dumps += 1;
                    let d = full_dump(&state, &db, keys, qs, true);
                    let (l, f) = diff(&d, reference);
                    if !l.is_empty() {
                        bad += 1;
                        if first.is_empty() {
                            first = format!("input State iterated as {:?}, Graph::keys() as {:?}: {}", o.state_order, o.keys_order, f);
                        }
                        labels.extend(l);
                    }
                }
            }
        });
        let refs_closed = ref_orders.values().all(|(k, seen)| seen.len() == factorial(*k));
        closed = refs_closed && if want_joint { joint.len() == nf * nf } else { state_orders.len() == nf && keys_orders.len() == nf };
    }
    *counters.entry("hash_dumps_compared".into()).or_insert(0) += dumps;
    *tr += builds;
    *counters.entry("hash_closure_cases".into()).or_insert(0) += 1;
    if closed {
        *counters.entry("hash_closure_reached".into()).or_insert(0) += 1;
    }
    if want_joint {
        *counters.entry("hash_closure_joint_required".into()).or_insert(0) += 1;
    }
    *counters.entry("hash_builds".into()).or_insert(0) += builds;
    *counters.entry("hash_state_orders_seen".into()).or_insert(0) += state_orders.len() as u64;
    *counters.entry("hash_state_orders_possible".into()).or_insert(0) += nf as u64;
    *counters.entry("hash_keys_orders_seen".into()).or_insert(0) += keys_orders.len() as u64;
    *counters.entry("hash_keys_orders_possible".into()).or_insert(0) += nf as u64;
    *counters.entry("hash_joint_orders_seen".into()).or_insert(0) += joint.len() as u64;
    *counters.entry("hash_joint_orders_possible".into()).or_insert(0) += (nf * nf) as u64;
    *counters.entry("hash_ref_sets".into()).or_insert(0) += ref_orders.len() as u64;
    *counters.entry("hash_ref_set_orders_seen".into()).or_insert(0) += ref_orders.values().map(|(_, s)| s.len() as u64).sum::<u64>();
    *counters.entry("hash_ref_set_orders_possible".into()).or_insert(0) += ref_orders.values().map(|(k, _)| factorial(*k) as u64).sum::<u64>();
    let mut fs = vec![];
    if !labels.is_empty() {
        fs.push(fail(
            "hash-seed",
            &labels,
            feats,
            format!(
                "{}\n{} of the {} compared dumps ({} builds with fresh hash seeds; a dump is compared whenever an iteration order is observed for the first time, and for every 16th build) differ from the reference build; first difference: {}",
                lib_description(lib),
                bad,
                dumps,
                builds,
                first
            ),
        ));
    }
    let outcome = if !labels.is_empty() {
        format!("diff:{}", labels.iter().cloned().collect::<Vec<_>>().join("+"))
    } else if closed {
        "equal:closed".to_string()
    } else {
        "equal:capped".to_string()
    };
    (outcome, joint.len() > 1, fs)
}
