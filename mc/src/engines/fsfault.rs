//! C19 — on-disk `iwe normalize` rewrites notes in place and never leaves a damaged file.
//!
//! Fault enumeration on the real `iwe` BINARY (built from /repo's current working tree into
//! `IWE_TARGET_DIR`, never into /repo/target) running on real directory trees.
//!
//! A case is `tree=<name>:<kind>,<name>:<kind>,...|fault=<kind>`; the loop over the fault points
//! of that kind (every traced syscall index k, every byte limit L) runs INSIDE `run()`, because
//! the number of file-affecting syscalls is only known after a fault-free traced run of the
//! tree. Every failure detail names the exact syscall / k / L and a shell line that reproduces it.
//!
//! fault kinds
//!   none           fault-free oracle (content, path, nothing else created/deleted/touched)
//!   enospc|edquot  `strace -e inject=<syscall>:error=E...:when=k` for every traced syscall name
//!                  and every k (the syscall is not executed and fails with the errno)
//!   kill           `strace -e inject=<syscall>:signal=KILL:when=k` (SIGKILL at syscall entry)
//!   fsize-default  RLIMIT_FSIZE = L for every L in 0..=max note length, SIGXFSZ default (kills)
//!   fsize-ignored  the same with SIGXFSZ ignored (write returns a short count, then EFBIG):
//!                  a genuinely torn write at every byte offset
//!
//! strace counts `when=k` per thread and per syscall number (observed with strace 6.1), so the
//! injection is done in two passes: pass M without `-f` (only the main thread is traced: every
//! syscall of the single-threaded write phase is hit alone, a pure single fault) and pass T with
//! `-f` (all threads: the k-th matching call of every thread is hit, i.e. fault *sequences*
//! covering the multi-threaded read phase). `-P <path>` restricts tracing and counting to the
//! files of the tree plus every path the fault-free discovery run touched below the tree.
//!
//! The order in which notes are written follows HashMap iteration and differs per process, so
//! the (thread-class, syscall, file) triples hit are recorded from the trace of every faulted
//! run and the whole k-loop is repeated until every triple seen in the fault-free traces has
//! been hit (or `MAX_ROUNDS`); the same for (L, victim file) under RLIMIT_FSIZE.

use crate::core::*;
use liwe::graph::Graph;
use liwe::model::config::MarkdownOptions;
use serde_json::{json, Value};
use std::collections::{BTreeMap, BTreeSet, HashMap};
use std::io::Write as _;
use std::os::unix::process::{CommandExt, ExitStatusExt};
use std::path::{Path, PathBuf};
use std::process::{Command, Stdio};
use std::sync::atomic::{AtomicU64, Ordering};
use std::sync::OnceLock;
use std::time::{Duration, Instant, SystemTime};

// ------------------------------------------------------------------ locations (integration: change here)

/// cargo target directory the `iwe` binary is built into (integration: "/verif/target/iwe-bin")
pub const IWE_TARGET_DIR: &str = "/verif/target/iwe-bin";
/// scratch root; one sub-directory per case, created and removed by `run` (integration: "/verif/target/run/C19")
pub const RUN_ROOT: &str = "/verif/target/run/C19";
/// the tree under test
pub const REPO: &str = "/repo";
/// env: use this `iwe` binary instead of building one (used to validate the engine against a repaired copy)
pub const ENV_BIN: &str = "MC_IWE_BIN";
/// env: override RUN_ROOT
pub const ENV_RUN_ROOT: &str = "MC_C19_RUN_ROOT";

const RUN_TIMEOUT_S: u64 = 30;
const FIXED_MTIME_S: u64 = 978_307_200; // 2001-01-01: any rewrite of a file shows in its mtime

fn run_root() -> String {
    std::env::var(ENV_RUN_ROOT).unwrap_or_else(|_| RUN_ROOT.to_string())
}

// ------------------------------------------------------------------ the binary under test

/// Path of the `iwe` binary. Built once per check run from /repo's current working tree:
/// `cargo build --release --offline --locked --manifest-path /repo/Cargo.toml -p iwe` with
/// CARGO_TARGET_DIR=IWE_TARGET_DIR, serialised over all worker processes by a lock file; a stamp
/// (pid + start time of the parent process = the `mc <ID> <tier>` run, valid only while no file
/// under /repo/crates, /repo/Cargo.toml, /repo/Cargo.lock is newer) lets the other 15 workers
/// and the `--one` witness/replay processes of the same run skip the (no-op) cargo call.
pub fn iwe_bin() -> &'static str {
    static BIN: OnceLock<String> = OnceLock::new();
    BIN.get_or_init(|| {
        if let Ok(p) = std::env::var(ENV_BIN) {
            if !Path::new(&p).is_file() {
                panic!("C19: {}={} is not a file", ENV_BIN, p);
            }
            return p;
        }
        match build_iwe() {
            Ok(p) => p,
            Err(e) => panic!("C19: cannot build the iwe binary from {}: {}", REPO, e),
        }
    })
}

fn session_id() -> String {
    let ppid = unsafe { libc::getppid() };
    let stat = std::fs::read_to_string(format!("/proc/{}/stat", ppid)).unwrap_or_default();
    // field 22 (starttime) counted after the ")" that ends comm
    let start = stat.rsplit_once(')').map(|x| x.1).and_then(|r| r.split_whitespace().nth(19).map(|s| s.to_string())).unwrap_or_default();
    format!("{}:{}", ppid, start)
}

fn newest_source_mtime() -> Option<SystemTime> {
    fn walk(p: &Path, best: &mut Option<SystemTime>) {
        let md = match std::fs::symlink_metadata(p) {
            Ok(m) => m,
            Err(_) => return,
        };
        if md.is_dir() {
            if p.file_name().map_or(false, |n| n == "target" || n == ".git") {
                return;
            }
            // a directory's own mtime changes when an entry is added/removed
            if let Ok(t) = md.modified() {
                if best.map_or(true, |b| t > b) {
                    *best = Some(t);
                }
            }
            if let Ok(rd) = std::fs::read_dir(p) {
                for e in rd.flatten() {
                    walk(&e.path(), best);
                }
            }
        } else if let Ok(t) = md.modified() {
            if best.map_or(true, |b| t > b) {
                *best = Some(t);
            }
        }
    }
    let mut best = None;
    for p in ["crates", "Cargo.toml", "Cargo.lock"] {
        walk(&Path::new(REPO).join(p), &mut best);
    }
    best
}

fn build_iwe() -> Result<String, String> {
    let dir = Path::new(IWE_TARGET_DIR);
    std::fs::create_dir_all(dir).map_err(|e| format!("mkdir {}: {}", IWE_TARGET_DIR, e))?;
    let bin = dir.join("release/iwe");
    let stamp = dir.join(".mc-c19-build.stamp");
    let fresh = |sid: &str| -> bool {
        let s = match std::fs::read_to_string(&stamp) {
            Ok(s) => s,
            Err(_) => return false,
        };
        if s.trim() != sid || !bin.is_file() {
            return false;
        }
        let st = match std::fs::metadata(&stamp).and_then(|m| m.modified()) {
            Ok(t) => t,
            Err(_) => return false,
        };
        match newest_source_mtime() {
            Some(src) => src < st,
            None => false,
        }
    };
    let sid = session_id();
    if fresh(&sid) {
        return Ok(bin.to_string_lossy().to_string());
    }
    let lock = std::fs::OpenOptions::new()
        .create(true)
        .write(true)
        .open(dir.join(".mc-c19-build.lock"))
        .map_err(|e| format!("lock file: {}", e))?;
    use std::os::unix::io::AsRawFd;
    if unsafe { libc::flock(lock.as_raw_fd(), libc::LOCK_EX) } != 0 {
        return Err("flock failed".into());
    }
    if fresh(&sid) {
        return Ok(bin.to_string_lossy().to_string());
    }
    let t0 = SystemTime::now();
    let out = Command::new("cargo")
        .args(["build", "--release", "--offline", "--locked", "--manifest-path"])
        .arg(format!("{}/Cargo.toml", REPO))
        .args(["-p", "iwe"])
        .env("CARGO_TARGET_DIR", IWE_TARGET_DIR)
        .env("CARGO_NET_OFFLINE", "true")
        .stdin(Stdio::null())
        .output()
        .map_err(|e| format!("cargo: {}", e))?;
    if !out.status.success() || !bin.is_file() {
        let err = String::from_utf8_lossy(&out.stderr);
        let tail: Vec<&str> = err.lines().rev().take(25).collect();
        let _ = std::fs::write(dir.join("build.log"), err.as_bytes());
        return Err(format!("cargo build failed:\n{}", tail.into_iter().rev().collect::<Vec<_>>().join("\n")));
    }
    // the stamp's mtime is the moment before the build started: an edit during the build invalidates it
    if let Ok(mut f) = std::fs::File::create(&stamp) {
        let _ = f.write_all(sid.as_bytes());
        let _ = f.set_modified(t0);
    }
    Ok(bin.to_string_lossy().to_string())
}

// ------------------------------------------------------------------ the space: trees and faults

/// content kinds
fn content(kind: &str) -> Vec<u8> {
    match kind {
        // notes that `normalize` changes, of different lengths
        "T1" => b"# t\ntext  with   spaces\n* item\n".to_vec(),
        "T2" => b"* a\n".to_vec(), // new text has the SAME length as the old one
        "T3" => "# \u{dc}berschrift\nerste zeile\nzweite zeile\n\n1. x\n2. y\n\n> zitat\n".as_bytes().to_vec(),
        // a note that is already normal (old == new)
        "T0" => b"# t\n".to_vec(),
        // an empty note
        "TE" => vec![],
        // non-note contents
        "X" => b"not a note\n".to_vec(),
        "M" => b"* looks like a note\n".to_vec(),
        "B" => vec![0x89, b'P', b'N', b'G', 0x00, 0xff, 0xfe, b'\n'], // not UTF-8
        // `.iwe/config.toml`: CD = the default configuration spelled out, CL = library in sub-directory d
        "CD" => b"[markdown]\nrefs_extension = \"\"\n\n[library]\npath = \"\"\n\n[models]\n\n[actions]\n".to_vec(),
        "CL" => b"[markdown]\nrefs_extension = \"\"\n\n[library]\npath = \"d\"\n\n[models]\n\n[actions]\n".to_vec(),
        _ => panic!("C19: unknown content kind {:?}", kind),
    }
}

const NOTE_KINDS: &[&str] = &["T1", "T2", "T3"];

/// (name, fixed kind or "" = rotating note kind)
const ALPHA_QUICK: &[(&str, &str)] = &[
    ("a.md", ""),
    ("b c.md", ""),
    ("d/\u{e9}.md", ""),
    ("d/h/f g.md", ""),
    ("n.md.md", ""),
    // a dot inside the file stem (dates, versions)
    ("v1.2.md", ""),
    // a note below a directory whose name starts with a dot
    (".h/g.md", ""),
    ("x.txt", "X"),
    // an upper-case extension is not a note (the library model reads lower-case `.md` only): it
    // must stay untouched although its text looks like a note
    ("u.MD", "M"),
    ("d/y.png", "B"),
    (".iwe/config.toml", "CD"),
];

/// additional names of the thorough tier
const ALPHA_MORE: &[(&str, &str)] = &[
    ("\u{fc} \u{df}/\u{f6}.md", ""),
    ("d/a.md", ""),
    ("2024.01/p.md", ""),
    ("v1.md", ""),
    ("z.md/k.md", ""),
    ("k0.md", "T0"),
    ("empty.md", "TE"),
    ("bad.md", "B"),
    ("d/w.Md", "M"),
    (".md", "M"),
    ("a.md.bak", "M"),
    ("a.md.tmp", "M"),
    (".iwe/config.toml", "CL"),
];

const FAULTS_QUICK: &[&str] = &["none", "enospc", "kill", "fsize-default", "fsize-ignored"];
const FAULTS_THOROUGH: &[&str] = &["none", "enospc", "kill", "fsize-default", "fsize-ignored", "edquot"];

#[derive(Clone, Debug)]
struct FileSpec {
    name: String,
    kind: String,
}

fn tree_string(files: &[FileSpec]) -> String {
    files.iter().map(|f| format!("{}:{}", f.name, f.kind)).collect::<Vec<_>>().join(",")
}

fn parse_case(case: &str) -> Option<(Vec<FileSpec>, String)> {
    let rest = case.strip_prefix("tree=")?;
    let (t, fault) = rest.rsplit_once("|fault=")?;
    let mut files = vec![];
    if !t.is_empty() {
        for part in t.split(',') {
            let (n, k) = part.rsplit_once(':')?;
            files.push(FileSpec { name: n.to_string(), kind: k.to_string() });
        }
    }
    Some((files, fault.to_string()))
}

/// all subsets of `alpha` of size lo..=hi (by increasing size, then lexicographic by index), with the
/// rotating note kind of alphabet position i being NOTE_KINDS[(i + rot) % 3]
fn subsets(alpha: &[(&str, &str)], lo: usize, hi: usize, rot: usize, must_contain_from: usize, emit: &mut dyn FnMut(Vec<FileSpec>)) {
    let n = alpha.len();
    for size in lo..=hi.min(n) {
        let mut idx: Vec<usize> = (0..size).collect();
        loop {
            // two entries for the same path (the two configs) exclude each other
            let mut names = BTreeSet::new();
            let distinct = idx.iter().all(|&i| names.insert(alpha[i].0));
            if distinct && idx.iter().any(|&i| i >= must_contain_from) {
                emit(
                    idx.iter()
                        .map(|&i| FileSpec {
                            name: alpha[i].0.to_string(),
                            kind: if alpha[i].1.is_empty() { NOTE_KINDS[(i + rot) % NOTE_KINDS.len()].to_string() } else { alpha[i].1.to_string() },
                        })
                        .collect(),
                );
            }
            // next combination
            let mut p = size;
            while p > 0 && idx[p - 1] == n - size + (p - 1) {
                p -= 1;
            }
            if p == 0 {
                break;
            }
            idx[p - 1] += 1;
            for q in p..size {
                idx[q] = idx[q - 1] + 1;
            }
        }
    }
}

/// the configuration whose library is the sub-directory `d`, with every other name of the quick
/// alphabet, and with every pair of its first four notes (notes inside and outside the library)
fn library_in_subdirectory_trees(emit: &mut dyn FnMut(Vec<FileSpec>)) {
    let spec = |i: usize| FileSpec {
        name: ALPHA_QUICK[i].0.to_string(),
        kind: if ALPHA_QUICK[i].1.is_empty() { NOTE_KINDS[i % NOTE_KINDS.len()].to_string() } else { ALPHA_QUICK[i].1.to_string() },
    };
    let cl = || FileSpec { name: ".iwe/config.toml".to_string(), kind: "CL".to_string() };
    for i in 0..ALPHA_QUICK.len() {
        if ALPHA_QUICK[i].0 != ".iwe/config.toml" {
            emit(vec![spec(i), cl()]);
        }
    }
    for i in 0..4 {
        for j in i + 1..4 {
            emit(vec![spec(i), spec(j), cl()]);
        }
    }
}

fn trees(tier: Tier, emit: &mut dyn FnMut(Vec<FileSpec>)) {
    match tier {
        Tier::Quick => {
            subsets(ALPHA_QUICK, 1, 3, 0, 0, emit);
            library_in_subdirectory_trees(emit);
        }
        Tier::Thorough => {
            // 1. the quick alphabet, <= 4 files, all three content rotations
            for rot in 0..3 {
                subsets(ALPHA_QUICK, 1, 4, rot, 0, emit);
            }
            // 2. the full alphabet, <= 2 files, all three rotations; 3 files, rotation 0, containing
            //    at least one of the additional names (the others are in 1.)
            let full: Vec<(&str, &str)> = ALPHA_QUICK.iter().chain(ALPHA_MORE.iter()).cloned().collect();
            for rot in 0..3 {
                subsets(&full, 1, 2, rot, ALPHA_QUICK.len(), emit);
            }
            subsets(&full, 3, 3, 0, ALPHA_QUICK.len(), emit);
        }
    }
}

// ------------------------------------------------------------------ own model of the library (shares no code with liwe::fs)

fn last_component(p: &str) -> &str {
    p.rsplit('/').next().unwrap_or(p)
}

/// a note file: last path component is `<non-empty stem>.md` (and the bytes are UTF-8)
fn is_note_name(p: &str) -> bool {
    let n = last_component(p);
    n.len() > 3 && n.ends_with(".md")
}

struct Model {
    /// sub-directory of the tree that is the library ("" = the tree root)
    lib_rel: String,
    /// note file (tree-relative) -> key
    key_of: BTreeMap<String, String>,
    /// note file -> old text
    old: BTreeMap<String, Vec<u8>>,
    /// note file -> text the in-memory export defines
    new: BTreeMap<String, Vec<u8>>,
}

fn model(files: &[FileSpec]) -> Result<Model, (String, String)> {
    let lib_rel = if files.iter().any(|f| f.name == ".iwe/config.toml" && f.kind == "CL") { "d".to_string() } else { String::new() };
    let mut key_of = BTreeMap::new();
    let mut old = BTreeMap::new();
    let mut state: HashMap<String, String> = HashMap::new();
    for f in files {
        let rel = if lib_rel.is_empty() {
            f.name.as_str()
        } else {
            match f.name.strip_prefix(&format!("{}/", lib_rel)) {
                Some(r) => r,
                None => continue,
            }
        };
        if !is_note_name(rel) {
            continue;
        }
        let bytes = content(&f.kind);
        let text = match String::from_utf8(bytes.clone()) {
            Ok(t) => t,
            Err(_) => continue, // not text: not a note, must stay untouched
        };
        // the text does not depend on the key (the note contents contain no links), so the notes are
        // imported under neutral keys in the file's directory: liwe's own key normalisation
        // (Key::from_file_name strips `.md`) cannot leak into the oracle
        let dir = rel.rsplit_once('/').map(|x| format!("{}/", x.0)).unwrap_or_default();
        let key = format!("{}note{}", dir.replace(".md", "_md"), key_of.len());
        key_of.insert(f.name.clone(), key.clone());
        old.insert(f.name.clone(), bytes);
        state.insert(key, text);
    }
    let export = guarded(|| Graph::import(&state, MarkdownOptions::default()).export())?;
    let mut new = BTreeMap::new();
    for (name, key) in &key_of {
        // a key the export does not contain is not written: the file keeps its old text
        let t = export.get(key).map(|s| s.as_bytes().to_vec()).unwrap_or_else(|| old[name].clone());
        new.insert(name.clone(), t);
    }
    Ok(Model { lib_rel, key_of, old, new })
}

fn tree_features(files: &[FileSpec], m: Option<&Model>) -> Vec<String> {
    let mut f: BTreeSet<String> = BTreeSet::new();
    let notes = files.iter().filter(|x| is_note_name(&x.name) && String::from_utf8(content(&x.kind)).is_ok()).count();
    f.insert(format!("files:{}", files.len()));
    if notes >= 1 {
        f.insert("has-note".into());
    }
    if notes >= 2 {
        f.insert("notes>=2".into());
    }
    for x in files {
        let n = &x.name;
        if n.contains(' ') {
            f.insert("name:space".into());
        }
        if !n.is_ascii() {
            f.insert("name:non-ascii".into());
        }
        if n.contains('/') && !n.starts_with(".iwe/") {
            f.insert("nested".into());
        }
        if n.matches('/').count() >= 2 {
            f.insert("nested>=2".into());
        }
        if n.ends_with(".md.md") {
            f.insert("md.md".into());
        }
        if n.split('/').rev().skip(1).any(|d| d.ends_with(".md")) {
            f.insert("dir.md".into());
        }
        if n.ends_with(".md.tmp") {
            f.insert("pre-existing-tmp".into());
        }
        if n == ".iwe/config.toml" {
            f.insert(format!("config:{}", x.kind));
        } else if !is_note_name(n) || String::from_utf8(content(&x.kind)).is_err() {
            f.insert("non-note-file".into());
        }
        if is_note_name(n) {
            f.insert(format!("content:{}", x.kind));
        }
    }
    if let Some(m) = m {
        if m.key_of.len() < notes {
            f.insert("note-outside-library".into());
        }
    }
    f.into_iter().collect()
}

// ------------------------------------------------------------------ scratch directories, snapshots

struct Scratch {
    dir: PathBuf,
}
impl Scratch {
    fn new(case: &str) -> Scratch {
        static SEQ: AtomicU64 = AtomicU64::new(0);
        let dir = PathBuf::from(run_root()).join(format!("{:016x}-{}-{}", fx(case), std::process::id(), SEQ.fetch_add(1, Ordering::Relaxed)));
        let _ = std::fs::remove_dir_all(&dir);
        std::fs::create_dir_all(&dir).unwrap_or_else(|e| panic!("C19: cannot create scratch {}: {}", dir.display(), e));
        // no symlinks in the prefix: strace -P and the fd paths must agree with the paths iwe builds from cwd
        let dir = std::fs::canonicalize(&dir).unwrap_or(dir);
        Scratch { dir }
    }
}
impl Drop for Scratch {
    fn drop(&mut self) {
        let _ = std::fs::remove_dir_all(&self.dir);
    }
}

fn build_tree(root: &Path, files: &[FileSpec]) {
    let _ = std::fs::remove_dir_all(root);
    std::fs::create_dir_all(root).expect("mkdir tree root");
    let t = SystemTime::UNIX_EPOCH + Duration::from_secs(FIXED_MTIME_S);
    for f in files {
        let p = root.join(&f.name);
        if let Some(parent) = p.parent() {
            std::fs::create_dir_all(parent).expect("mkdir");
        }
        let mut fh = std::fs::File::create(&p).expect("create tree file");
        fh.write_all(&content(&f.kind)).expect("write tree file");
        fh.set_modified(t).expect("set mtime");
    }
}

#[derive(Clone, PartialEq, Debug)]
struct Entry {
    bytes: Vec<u8>,
    mtime: (i64, i64),
    regular: bool,
}

#[derive(Clone, PartialEq, Debug, Default)]
struct Snap {
    files: BTreeMap<String, Entry>,
    dirs: BTreeSet<String>,
}

fn snapshot(root: &Path) -> Snap {
    fn walk(root: &Path, rel: &str, s: &mut Snap) {
        let dir = if rel.is_empty() { root.to_path_buf() } else { root.join(rel) };
        let rd = match std::fs::read_dir(&dir) {
            Ok(r) => r,
            Err(_) => return,
        };
        for e in rd.flatten() {
            let name = e.file_name().to_string_lossy().to_string();
            let r = if rel.is_empty() { name } else { format!("{}/{}", rel, name) };
            let md = match std::fs::symlink_metadata(e.path()) {
                Ok(m) => m,
                Err(_) => continue,
            };
            if md.is_dir() {
                s.dirs.insert(r.clone());
                walk(root, &r, s);
            } else {
                use std::os::unix::fs::MetadataExt;
                let regular = md.is_file();
                let bytes = if regular { std::fs::read(e.path()).unwrap_or_default() } else { vec![] };
                s.files.insert(r, Entry { bytes, mtime: (md.mtime(), md.mtime_nsec()), regular });
            }
        }
    }
    let mut s = Snap::default();
    walk(root, "", &mut s);
    s
}

fn show(b: &[u8]) -> String {
    trunc(&format!("{:?}", String::from_utf8_lossy(b)), 120)
}

// ------------------------------------------------------------------ strace

const TRACE_SET: &str = "trace=open,openat,openat2,creat,write,writev,pwrite64,pwritev,pwritev2,close,rename,renameat,renameat2,unlink,unlinkat,rmdir,mkdir,mkdirat,link,linkat,symlink,symlinkat,truncate,ftruncate,fallocate,fsync,fdatasync,chmod,fchmod,fchmodat,utimensat,copy_file_range,sendfile";

fn syscall_kind(name: &str) -> &'static str {
    match name {
        "open" | "openat" | "openat2" | "creat" => "open",
        "write" | "writev" | "pwrite64" | "pwritev" | "pwritev2" | "copy_file_range" | "sendfile" => "write",
        "close" => "close",
        "rename" | "renameat" | "renameat2" => "rename",
        "unlink" | "unlinkat" | "rmdir" => "unlink",
        "fsync" | "fdatasync" => "sync",
        "truncate" | "ftruncate" | "fallocate" => "trunc",
        _ => "meta",
    }
}

#[derive(Clone, Debug)]
struct Ev {
    pid: u32,
    sys: String,
    /// absolute paths named by the call (path arguments, or the path of the fd argument)
    paths: Vec<String>,
    /// open flags (text), "" otherwise
    flags: String,
    ret: Option<String>,
    injected: bool,
}

/// parse a C-quoted string starting at s[i] == '"'; returns (bytes, index after the closing quote)
fn parse_quoted(s: &[u8], mut i: usize) -> (Vec<u8>, usize) {
    let mut out = vec![];
    i += 1;
    while i < s.len() {
        let c = s[i];
        if c == b'"' {
            return (out, i + 1);
        }
        if c == b'\\' && i + 1 < s.len() {
            i = unescape_at(s, i, &mut out);
            continue;
        }
        out.push(c);
        i += 1;
    }
    (out, i)
}

/// decode one backslash escape at s[i] == '\\'; returns the index after it
fn unescape_at(s: &[u8], i: usize, out: &mut Vec<u8>) -> usize {
    let c = s[i + 1];
    match c {
        b'n' => out.push(b'\n'),
        b't' => out.push(b'\t'),
        b'r' => out.push(b'\r'),
        b'v' => out.push(0x0b),
        b'f' => out.push(0x0c),
        b'x' => {
            let mut j = i + 2;
            let mut v: u32 = 0;
            while j < s.len() && j < i + 4 && (s[j] as char).is_ascii_hexdigit() {
                v = v * 16 + (s[j] as char).to_digit(16).unwrap();
                j += 1;
            }
            out.push(v as u8);
            return j;
        }
        b'0'..=b'7' => {
            let mut j = i + 1;
            let mut v: u32 = 0;
            while j < s.len() && j < i + 4 && (b'0'..=b'7').contains(&s[j]) {
                v = v * 8 + (s[j] - b'0') as u32;
                j += 1;
            }
            out.push(v as u8);
            return j;
        }
        other => out.push(other),
    }
    i + 2
}

/// the `<path>` decoration of an fd argument (strace -y) starting at s[i] == '<'
fn parse_fd_path(s: &[u8], mut i: usize) -> (Vec<u8>, usize) {
    let mut out = vec![];
    i += 1;
    while i < s.len() {
        let c = s[i];
        if c == b'>' {
            return (out, i + 1);
        }
        if c == b'\\' && i + 1 < s.len() {
            i = unescape_at(s, i, &mut out);
            continue;
        }
        out.push(c);
        i += 1;
    }
    (out, i)
}

fn parse_trace(text: &str, cwd: &str) -> Vec<Ev> {
    let mut evs: Vec<Ev> = vec![];
    let mut pending: HashMap<u32, usize> = HashMap::new();
    for line in text.lines() {
        let (pid, rest) = match line.chars().next() {
            Some(c) if c.is_ascii_digit() => {
                let (p, r) = line.split_once(char::is_whitespace).unwrap_or((line, ""));
                (p.parse::<u32>().unwrap_or(0), r.trim_start())
            }
            _ => (0u32, line),
        };
        if rest.starts_with("+++") || rest.starts_with("---") {
            continue;
        }
        if let Some(r) = rest.strip_prefix("<... ") {
            if let Some(ix) = pending.remove(&pid) {
                if let Some((_, ret)) = r.rsplit_once(" = ") {
                    evs[ix].ret = Some(ret.split_whitespace().next().unwrap_or("").to_string());
                }
                if r.contains("(INJECTED)") {
                    evs[ix].injected = true;
                }
            }
            continue;
        }
        let open = match rest.find('(') {
            Some(o) => o,
            None => continue,
        };
        let sys = rest[..open].to_string();
        if sys.is_empty() || !sys.chars().all(|c| c.is_ascii_alphanumeric() || c == '_') {
            continue;
        }
        let b = rest.as_bytes();
        let mut paths: Vec<String> = vec![];
        let mut flags = String::new();
        let kind = syscall_kind(&sys);
        let by_fd = matches!(sys.as_str(), "write" | "writev" | "pwrite64" | "pwritev" | "pwritev2" | "close" | "fsync" | "fdatasync" | "ftruncate" | "fallocate" | "fchmod");
        let mut i = open + 1;
        if by_fd {
            // first argument: N<path>
            while i < b.len() && b[i].is_ascii_digit() {
                i += 1;
            }
            if i < b.len() && b[i] == b'<' {
                let (p, _) = parse_fd_path(b, i);
                paths.push(String::from_utf8_lossy(&p).to_string());
            }
        } else if matches!(sys.as_str(), "copy_file_range" | "sendfile") {
            // two fd arguments
            let mut seen = 0;
            while i < b.len() && seen < 2 {
                if b[i] == b'<' {
                    let (p, j) = parse_fd_path(b, i);
                    paths.push(String::from_utf8_lossy(&p).to_string());
                    i = j;
                    seen += 1;
                } else if b[i] == b')' {
                    break;
                } else {
                    i += 1;
                }
            }
        } else {
            // path arguments: every quoted string (skipping fd decorations like AT_FDCWD</cwd>)
            let want = if matches!(kind, "rename") || matches!(sys.as_str(), "link" | "linkat" | "symlink" | "symlinkat") { 2 } else { 1 };
            let mut last_end = i;
            while i < b.len() && paths.len() < want {
                match b[i] {
                    b'"' => {
                        let (p, j) = parse_quoted(b, i);
                        let mut s = String::from_utf8_lossy(&p).to_string();
                        if !s.starts_with('/') {
                            s = format!("{}/{}", cwd, s);
                        }
                        paths.push(s);
                        i = j;
                        last_end = j;
                    }
                    b'<' => {
                        let (_, j) = parse_fd_path(b, i);
                        i = j;
                    }
                    _ => i += 1,
                }
            }
            if kind == "open" {
                let tail = &rest[last_end.min(rest.len())..];
                let tail = tail.trim_start_matches(',').trim_start();
                let end = tail.find(|c: char| c == ',' || c == ')' || c == ' ').unwrap_or(tail.len());
                flags = tail[..end].to_string();
            }
        }
        let unfinished = rest.ends_with("<unfinished ...>");
        let mut ret = None;
        if !unfinished {
            if let Some((_, r)) = rest.rsplit_once(" = ") {
                ret = Some(r.split_whitespace().next().unwrap_or("").to_string());
            }
        }
        let injected = rest.contains("(INJECTED)");
        evs.push(Ev { pid, sys, paths, flags, ret, injected });
        if unfinished {
            pending.insert(pid, evs.len() - 1);
        }
    }
    evs
}

fn write_mode(flags: &str) -> bool {
    flags.contains("O_WRONLY") || flags.contains("O_RDWR") || flags.contains("O_CREAT") || flags.contains("O_TRUNC") || flags.contains("O_APPEND")
}

/// label of an event: "<syscall>[/rd|/wr]:<tree-relative path>[-><path>]"
fn labels(evs: &[Ev], root: &str) -> Vec<(usize, String)> {
    let prefix = format!("{}/", root);
    let mut mode: HashMap<String, bool> = HashMap::new();
    let mut out = vec![];
    // directories (read_dir) are not file-affecting: skip their open and the close of their fd
    let dirs: BTreeSet<&str> = evs.iter().filter(|e| e.flags.contains("O_DIRECTORY")).flat_map(|e| e.paths.iter().map(|p| p.as_str())).collect();
    for (i, e) in evs.iter().enumerate() {
        let rel: Vec<&str> = e.paths.iter().filter_map(|p| p.strip_prefix(&prefix)).collect();
        if rel.is_empty() {
            continue;
        }
        if e.flags.contains("O_DIRECTORY") || (syscall_kind(&e.sys) == "close" && e.paths.iter().any(|p| dirs.contains(p.as_str()))) {
            continue;
        }
        let kind = syscall_kind(&e.sys);
        let m = match kind {
            "open" => {
                let w = write_mode(&e.flags);
                mode.insert(rel[0].to_string(), w);
                if w { "/wr" } else { "/rd" }
            }
            "close" => match mode.get(rel[0]) {
                Some(true) => "/wr",
                Some(false) => "/rd",
                None => "",
            },
            _ => "",
        };
        out.push((i, format!("{}{}:{}", e.sys, m, rel.join("->"))));
    }
    out
}

#[derive(Debug)]
struct ProcOut {
    /// "exit:N" | "signal:N" | "timeout"
    status: String,
}

fn wait_with_timeout(mut child: std::process::Child) -> ProcOut {
    let t0 = Instant::now();
    let mut nap = 200u64;
    loop {
        match child.try_wait() {
            Ok(Some(st)) => {
                let status = match (st.code(), st.signal()) {
                    (Some(c), _) => format!("exit:{}", c),
                    (None, Some(s)) => format!("signal:{}", s),
                    _ => "unknown".into(),
                };
                return ProcOut { status };
            }
            Ok(None) => {
                if t0.elapsed().as_secs() >= RUN_TIMEOUT_S {
                    let _ = child.kill();
                    let _ = child.wait();
                    return ProcOut { status: "timeout".into() };
                }
                std::thread::sleep(Duration::from_micros(nap));
                nap = (nap * 2).min(2000);
            }
            Err(_) => return ProcOut { status: "unknown".into() },
        }
    }
}

fn base_cmd(prog: &str, cwd: &Path) -> Command {
    let mut c = Command::new(prog);
    c.current_dir(cwd)
        .env("RAYON_NUM_THREADS", "2")
        .env_remove("IWE_DEBUG")
        .env_remove("RUST_BACKTRACE")
        .env_remove("RUST_LOG")
        .stdin(Stdio::null())
        .stdout(Stdio::null())
        .stderr(Stdio::null());
    c
}

struct Traced {
    status: String,
    evs: Vec<Ev>,
}

/// run `iwe normalize` in `root` under strace. `follow`: -f; `paths`: -P filter; `inject`: e.g. "write:error=ENOSPC:when=2"
fn run_traced(root: &Path, log: &Path, follow: bool, paths: Option<&[String]>, inject: Option<&str>) -> Traced {
    let _ = std::fs::remove_file(log);
    let mut c = base_cmd("strace", root);
    if follow {
        c.arg("-f");
    }
    c.arg("-y").arg("-o").arg(log).arg("-e").arg(TRACE_SET);
    if let Some(ps) = paths {
        for p in ps {
            c.arg("-P").arg(p);
        }
    }
    if let Some(i) = inject {
        c.arg("-e").arg(format!("inject={}", i));
    }
    c.arg(iwe_bin()).arg("normalize");
    let child = c.spawn().unwrap_or_else(|e| panic!("C19: cannot run strace: {}", e));
    let out = wait_with_timeout(child);
    let text = std::fs::read(log).map(|b| String::from_utf8_lossy(&b).to_string()).unwrap_or_default();
    Traced { status: out.status, evs: parse_trace(&text, &root.to_string_lossy()) }
}

fn run_plain(root: &Path) -> String {
    let mut c = base_cmd(iwe_bin(), root);
    c.arg("normalize");
    let child = c.spawn().unwrap_or_else(|e| panic!("C19: cannot run {}: {}", iwe_bin(), e));
    wait_with_timeout(child).status
}

/// `prlimit --fsize=L --core=0 [env --ignore-signal=XFSZ] iwe normalize`, done with setrlimit/signal
/// between fork and exec (same kernel mechanism, no extra process)
fn run_fsize(root: &Path, limit: u64, ignore: bool) -> String {
    let mut c = base_cmd(iwe_bin(), root);
    c.arg("normalize");
    unsafe {
        c.pre_exec(move || {
            let r = libc::rlimit { rlim_cur: limit as libc::rlim_t, rlim_max: limit as libc::rlim_t };
            if libc::setrlimit(libc::RLIMIT_FSIZE, &r) != 0 {
                return Err(std::io::Error::last_os_error());
            }
            let z = libc::rlimit { rlim_cur: 0, rlim_max: 0 };
            libc::setrlimit(libc::RLIMIT_CORE, &z);
            libc::signal(libc::SIGXFSZ, if ignore { libc::SIG_IGN } else { libc::SIG_DFL });
            Ok(())
        });
    }
    let child = c.spawn().unwrap_or_else(|e| panic!("C19: cannot run {} under RLIMIT_FSIZE: {}", iwe_bin(), e));
    wait_with_timeout(child).status
}

// ------------------------------------------------------------------ oracles

/// what a faulted run left behind: (per-run class, damaged files [(path, damage, shown content)], left-over non-notes)
struct FaultVerdict {
    class: String,
    damaged: Vec<(String, String, String)>,
    leftover: Vec<String>,
    nonnote_changed: Vec<String>,
}

fn damage_of(cur: Option<&Entry>, complete: &[&Vec<u8>]) -> Option<String> {
    let c = match cur {
        None => return Some("missing".into()),
        Some(e) if !e.regular => return Some("not-a-file".into()),
        Some(e) => &e.bytes,
    };
    if complete.iter().any(|t| *t == c) {
        return None;
    }
    if c.is_empty() {
        return Some("empty".into());
    }
    if complete.iter().any(|t| t.starts_with(c)) {
        return Some("prefix".into());
    }
    Some("other".into())
}

/// faulted clause: every note file == its complete old or complete new text; a file that did not exist
/// before and ends in `.md` is a note file too and must be the complete new text of some note;
/// anything else left behind (e.g. `a.md.tmp`) is not a note and is a don't-care.
fn check_faulted(m: &Model, before: &Snap, refnew: &Snap, after: &Snap) -> FaultVerdict {
    let mut damaged = vec![];
    let mut n_old = 0;
    let mut n_new = 0;
    for (name, old) in &m.old {
        let new = &m.new[name];
        let mut complete: Vec<&Vec<u8>> = vec![old, new];
        // what the fault-free run really wrote there (if that differs from the export, the `content`
        // clause of fault=none reports it; it is still a complete text)
        if let Some(e) = refnew.files.get(name) {
            complete.push(&e.bytes);
        }
        match damage_of(after.files.get(name), &complete) {
            Some(d) => damaged.push((name.clone(), d, after.files.get(name).map(|e| show(&e.bytes)).unwrap_or("<missing>".into()))),
            None => {
                let c = &after.files[name].bytes;
                if c == old && old != new {
                    n_old += 1;
                } else {
                    n_new += 1;
                }
            }
        }
    }
    let mut leftover = vec![];
    for (name, e) in &after.files {
        if before.files.contains_key(name) {
            continue;
        }
        if is_note_name(name) {
            let all_new: Vec<&Vec<u8>> = m.new.values().chain(refnew.files.get(name).map(|e| &e.bytes)).collect();
            if let Some(d) = damage_of(Some(e), &all_new) {
                damaged.push((name.clone(), d, show(&e.bytes)));
            }
        } else {
            leftover.push(name.clone());
        }
    }
    let mut nonnote_changed = vec![];
    for (name, e) in &before.files {
        if m.old.contains_key(name) {
            continue;
        }
        if after.files.get(name) != Some(e) {
            nonnote_changed.push(name.clone());
        }
    }
    let class = if let Some(d) = damaged.iter().map(|x| x.1.clone()).min() {
        format!("torn:{}", d)
    } else if n_old > 0 && n_new > 0 {
        "mixed-old-new".into()
    } else if n_old > 0 {
        "all-old".into()
    } else {
        "all-new".into()
    };
    FaultVerdict { class, damaged, leftover, nonnote_changed }
}

/// fault-free clauses
fn check_fault_free(m: &Model, before: &Snap, after: &Snap, status: &str, how: &str, feats: &[String], loader_note: &str, out: &mut Vec<Failure>) {
    let mut add = |clause: &str, site: String, detail: String| {
        out.push(Failure { clause: clause.into(), site, features: feats.to_vec(), detail: format!("{} [{}]{}", detail, how, loader_note) });
    };
    if status != "exit:0" {
        add("fault-free-exit", status.to_string(), format!("`iwe normalize` without any fault ended with {}", status));
    }
    let created: Vec<&String> = after.files.keys().filter(|k| !before.files.contains_key(*k)).collect();
    let mut explained: BTreeSet<String> = BTreeSet::new();
    for (name, e) in &before.files {
        let cur = after.files.get(name);
        if let Some(old) = m.old.get(name) {
            let new = &m.new[name];
            match cur {
                None => add("deleted", "note".into(), format!("note file {:?} no longer exists", name)),
                Some(c) if &c.bytes == new => {}
                Some(c) if &c.bytes == old => {
                    // not rewritten where it was read from; was its new text written somewhere else?
                    let other: Vec<&String> = created.iter().cloned().filter(|k| &after.files[*k].bytes == new).collect();
                    if let Some(o) = other.first() {
                        explained.insert((*o).clone());
                        let site = if name.strip_suffix(".md") == Some(o.as_str()) { "strip-extra-.md" } else { "other" };
                        add(
                            "written-to-other-path",
                            site.into(),
                            format!("note file {:?} (old {}) still holds its old text; its new text {} was written to the new file {:?}", name, show(old), show(new), o),
                        );
                    } else {
                        add("not-rewritten", "stale".into(), format!("note file {:?} still holds its old text {}; the in-memory export defines {}", name, show(old), show(new)));
                    }
                }
                Some(c) => add("content", "differs-from-export".into(), format!("note file {:?}: on disk {}, the in-memory export defines {} (old {})", name, show(&c.bytes), show(new), show(old))),
            }
        } else {
            match cur {
                None => add("deleted", "non-note".into(), format!("non-note file {:?} no longer exists", name)),
                Some(c) if c == e => {}
                Some(c) => {
                    let what = if c.bytes != e.bytes { "content" } else { "mtime" };
                    add("touched-non-note", what.into(), format!("non-note file {:?} was touched: {} changed (before {} mtime {:?}, after {} mtime {:?})", name, what, show(&e.bytes), e.mtime, show(&c.bytes), c.mtime));
                }
            }
        }
    }
    for k in created {
        if !explained.contains(k) {
            add("created", if is_note_name(k) { "note".into() } else { "non-note".into() }, format!("file {:?} was created (content {})", k, show(&after.files[k].bytes)));
        }
    }
    for d in after.dirs.symmetric_difference(&before.dirs) {
        let c = if after.dirs.contains(d) { "created" } else { "deleted" };
        add(c, "directory".into(), format!("directory {:?} was {}", d, c));
    }
}

// ------------------------------------------------------------------ the engine

pub struct C19;

const MAX_ROUNDS_QUICK: usize = 6;
const MAX_ROUNDS_THOROUGH: usize = 12;

struct Acc {
    failures: BTreeMap<(String, String), Failure>,
    counters: BTreeMap<String, u64>,
    classes: BTreeSet<String>,
    runs: u64,
}
impl Acc {
    fn count(&mut self, k: &str, n: u64) {
        *self.counters.entry(k.to_string()).or_insert(0) += n;
    }
    fn fail(&mut self, f: Failure) {
        self.failures.entry((f.clause.clone(), f.site.clone())).or_insert(f);
    }
}

impl C19 {
    fn fault_loop_strace(&self, files: &[FileSpec], m: &Model, fault: &str, feats: &[String], sc: &Scratch, pset: &[String], ref_main: &[Ev], ref_all: &[Ev], refnew: &Snap, before: &Snap, max_rounds: usize, acc: &mut Acc) {
        let root = sc.dir.join("lib");
        let root_s = root.to_string_lossy().to_string();
        let log = sc.dir.join("trace.log");
        let action = match fault {
            "enospc" => "error=ENOSPC",
            "edquot" => "error=EDQUOT",
            "kill" => "signal=KILL",
            _ => unreachable!(),
        };
        // main pid of the -f reference trace: the one issuing write-side calls
        let main_pid: Option<u32> = {
            let l = labels(ref_all, &root_s);
            l.iter()
                .find(|(i, lab)| {
                    let k = syscall_kind(&ref_all[*i].sys);
                    matches!(k, "write" | "rename" | "unlink" | "trunc") || lab.contains("/wr:")
                })
                .map(|(i, _)| ref_all[*i].pid)
        };
        let errno_fault = fault != "kill";
        for pass in ["M", "T"] {
            let follow = pass == "T";
            // The statement quantifies over points where a file WRITE can fail or the process can die.
            // An errno on a read-side call (open O_RDONLY of a note or of .iwe/config.toml, close of a
            // read fd) is neither: pass T (whose extra fault points are all read-side) is run for `kill`
            // only, and in pass M a run whose injected call was read-side is counted, not judged.
            if follow && errno_fault {
                continue;
            }
            // syscall name -> number of fault points (max per-thread count), and target labels
            let mut per_sys: BTreeMap<String, u64> = BTreeMap::new();
            let mut target: BTreeSet<String> = BTreeSet::new();
            {
                let evs: &[Ev] = if follow { ref_all } else { ref_main };
                let mut per_thread: BTreeMap<(u32, String), u64> = BTreeMap::new();
                for (i, lab) in labels(evs, &root_s) {
                    let e = &evs[i];
                    if follow && Some(e.pid) == main_pid {
                        continue; // the main thread is covered, one call at a time, by pass M
                    }
                    *per_thread.entry((e.pid, e.sys.clone())).or_insert(0) += 1;
                    target.insert(format!("{}:{}", pass, lab));
                }
                for ((_, s), n) in per_thread {
                    let e = per_sys.entry(s).or_insert(0);
                    *e = (*e).max(n);
                }
            }
            acc.count(&format!("{}_triples_target", pass), target.len() as u64);
            let max_rounds = if follow { (max_rounds / 3).max(2) } else { max_rounds };
            let mut covered: BTreeSet<String> = BTreeSet::new();
            let mut rounds = 0;
            while rounds < max_rounds {
                rounds += 1;
                for (sys, n) in &per_sys {
                    // later rounds: only syscalls that still have an uncovered (file) target
                    if rounds > 1 && !target.iter().any(|t| !covered.contains(t) && t[2..].split(|c| c == '/' || c == ':').next() == Some(sys.as_str())) {
                        continue;
                    }
                    for k in 1..=*n {
                        build_tree(&root, files);
                        let inject = format!("{}:{}:when={}", sys, action, k);
                        let t_run = Instant::now();
                        let tr = run_traced(&root, &log, follow, Some(pset), Some(&inject));
                        if std::env::var("MC_C19_DEBUG").map_or(false, |v| v == "2") {
                            eprintln!("  pass {} {} -> {} in {:.3}s", pass, inject, tr.status, t_run.elapsed().as_secs_f64());
                        }
                        let after = snapshot(&root);
                        acc.runs += 1;
                        acc.count("traced_fault_runs", 1);
                        if rounds == 1 {
                            acc.count("fault_points", 1);
                        }
                        // which call(s) were hit
                        let labs = labels(&tr.evs, &root_s);
                        let hits: Vec<String> = labs
                            .iter()
                            .filter(|(i, _)| {
                                let e = &tr.evs[*i];
                                e.sys == *sys && (e.injected || (fault == "kill" && e.ret.as_deref().map_or(true, |r| r == "?")))
                            })
                            .map(|(_, l)| l.clone())
                            .collect();
                        if hits.is_empty() {
                            acc.count("fault_runs_without_hit", 1);
                        }
                        for h in &hits {
                            covered.insert(format!("{}:{}", pass, h));
                        }
                        if tr.status == "timeout" {
                            acc.fail(Failure {
                                clause: "hang".into(),
                                site: format!("{}:{}", fault, sys),
                                features: feats.to_vec(),
                                detail: format!("no exit within {} s with {} injected", RUN_TIMEOUT_S, inject),
                            });
                        }
                        let read_side = |l: &String| l.contains("/rd:");
                        if errno_fault && hits.iter().all(read_side) {
                            acc.count("errno_on_read_side_call_not_judged", 1);
                            continue;
                        }
                        let v = check_faulted(m, before, refnew, &after);
                        acc.classes.insert(v.class.clone());
                        if !v.leftover.is_empty() {
                            acc.count("dont_care_leftover_non_note_files", v.leftover.len() as u64);
                        }
                        if !v.nonnote_changed.is_empty() {
                            acc.count("non_note_changed_under_fault", v.nonnote_changed.len() as u64);
                        }
                        if !v.damaged.is_empty() {
                            acc.count("fault_runs_leaving_damage", 1);
                        }
                        for (name, dmg, shown) in &v.damaged {
                            let paths: String = pset.iter().map(|p| format!("-P \"$PWD/{}\" ", p.strip_prefix(&format!("{}/", root_s)).unwrap_or(p))).collect();
                            acc.fail(Failure {
                                clause: "torn-note".into(),
                                site: format!("{}:{}:{}", fault, sys, dmg),
                                features: feats.to_vec(),
                                detail: format!(
                                    "fault {} on syscall `{}`, k={} (pass {}: strace {}; call hit: {}), process ended with {}: note file {:?} is left {} = {} — neither its old text {} nor its new text {}. Reproduce in a fresh copy of the tree: strace {}-y -o /dev/null -e {} {}-e inject={} iwe normalize (write order varies per process; re-run until the call hit is the same)",
                                    fault, sys, k, pass, if follow { "-f, every thread counts its own k" } else { "without -f, main thread only" },
                                    if hits.is_empty() { "?".to_string() } else { hits.join(" + ") },
                                    tr.status, name, dmg, shown,
                                    m.old.get(name).map(|b| show(b)).unwrap_or("<did not exist>".into()),
                                    m.new.get(name).map(|b| show(b)).unwrap_or("<complete new text of some note>".into()),
                                    if follow { "-f " } else { "" }, "trace=openat,write,close,rename", paths, inject
                                ),
                            });
                        }
                    }
                }
                if target.iter().all(|t| covered.contains(t)) {
                    break;
                }
            }
            if std::env::var("MC_C19_DEBUG").map_or(false, |v| v == "2") {
                eprintln!("  pass {} per_sys {:?}\n    target {:?}\n    uncovered {:?}\n    extra {:?}", pass, per_sys, target, target.difference(&covered).collect::<Vec<_>>(), covered.difference(&target).collect::<Vec<_>>());
            }
            acc.count("rounds", rounds as u64);
            acc.count(&format!("{}_triples_covered", pass), target.iter().filter(|t| covered.contains(*t)).count() as u64);
            acc.count(&format!("{}_triples_uncovered", pass), target.iter().filter(|t| !covered.contains(*t)).count() as u64);
        }
    }

    fn fault_loop_fsize(&self, files: &[FileSpec], m: &Model, fault: &str, feats: &[String], sc: &Scratch, refnew: &Snap, before: &Snap, max_rounds: usize, acc: &mut Acc) {
        let root = sc.dir.join("lib");
        let ignore = fault == "fsize-ignored";
        // every byte limit up to the longest text any note file holds before or after (at the maximum
        // nothing is cut: a control)
        let mut maxlen = 0usize;
        for (name, old) in &m.old {
            maxlen = maxlen.max(old.len()).max(m.new[name].len());
            if let Some(e) = refnew.files.get(name) {
                maxlen = maxlen.max(e.bytes.len());
            }
        }
        for (name, e) in &refnew.files {
            if !before.files.contains_key(name) {
                maxlen = maxlen.max(e.bytes.len());
            }
        }
        // victims: files the fault-free run wrote (content or mtime changed, or created) and that are longer than L
        let written: Vec<(String, usize)> = refnew
            .files
            .iter()
            .filter(|(k, e)| before.files.get(*k) != Some(*e))
            .map(|(k, e)| (k.clone(), e.bytes.len()))
            .collect();
        let mut target: BTreeSet<(usize, String)> = BTreeSet::new();
        for l in 0..=maxlen {
            for (k, len) in &written {
                if *len > l {
                    target.insert((l, k.clone()));
                }
            }
        }
        acc.count("fsize_victim_pairs_target", target.len() as u64);
        let mut covered: BTreeSet<(usize, String)> = BTreeSet::new();
        let mut rounds = 0;
        while rounds < max_rounds {
            rounds += 1;
            for l in 0..=maxlen {
                if rounds > 1 && !target.iter().any(|t| t.0 == l && !covered.contains(t)) {
                    continue;
                }
                build_tree(&root, files);
                let status = run_fsize(&root, l as u64, ignore);
                let after = snapshot(&root);
                acc.runs += 1;
                acc.count("fsize_runs", 1);
                if rounds == 1 {
                    acc.count("fault_points", 1);
                }
                if status == "timeout" {
                    acc.fail(Failure { clause: "hang".into(), site: fault.to_string(), features: feats.to_vec(), detail: format!("no exit within {} s under RLIMIT_FSIZE={}", RUN_TIMEOUT_S, l) });
                }
                // victim: a written file that now holds exactly l bytes (cut) although it should hold more
                for (k, len) in &written {
                    if *len > l {
                        if let Some(e) = after.files.get(k) {
                            let orig_len = before.files.get(k).map(|b| b.bytes.len());
                            if e.bytes.len() == l && orig_len != Some(l) {
                                covered.insert((l, k.clone()));
                            } else if e.bytes.len() <= l && before.files.get(k).map(|b| &b.bytes) != Some(&e.bytes) {
                                covered.insert((l, k.clone()));
                            }
                        }
                    }
                }
                // files left as the victim's tmp file etc. count as covered victims too
                for (name, e) in &after.files {
                    if before.files.get(name) != Some(e) && !is_note_name(name) && e.bytes.len() <= l {
                        for (k, len) in &written {
                            if *len > l && name.starts_with(k.as_str()) {
                                covered.insert((l, k.clone()));
                            }
                        }
                    }
                }
                let v = check_faulted(m, before, refnew, &after);
                acc.classes.insert(v.class.clone());
                if !v.leftover.is_empty() {
                    acc.count("dont_care_leftover_non_note_files", v.leftover.len() as u64);
                }
                if !v.nonnote_changed.is_empty() {
                    acc.count("non_note_changed_under_fault", v.nonnote_changed.len() as u64);
                }
                if !v.damaged.is_empty() {
                    acc.count("fault_runs_leaving_damage", 1);
                }
                for (name, dmg, shown) in &v.damaged {
                    acc.fail(Failure {
                        clause: "torn-note".into(),
                        site: format!("{}:{}", fault, dmg),
                        features: feats.to_vec(),
                        detail: format!(
                            "RLIMIT_FSIZE L={} bytes, SIGXFSZ {} (process ended with {}): note file {:?} is left {} = {} — neither its old text {} nor its new text {}. Reproduce in a fresh copy of the tree: prlimit --fsize={} --core=0 {}iwe normalize",
                            l,
                            if ignore { "ignored" } else { "default" },
                            status,
                            name,
                            dmg,
                            shown,
                            m.old.get(name).map(|b| show(b)).unwrap_or("<did not exist>".into()),
                            m.new.get(name).map(|b| show(b)).unwrap_or("<complete new text of some note>".into()),
                            l,
                            if ignore { "env --ignore-signal=XFSZ " } else { "" }
                        ),
                    });
                }
            }
            if target.iter().all(|t| covered.contains(t)) {
                break;
            }
        }
        acc.count("rounds", rounds as u64);
        acc.count("fsize_victim_pairs_covered", target.iter().filter(|t| covered.contains(*t)).count() as u64);
        acc.count("fsize_victim_pairs_uncovered", target.iter().filter(|t| !covered.contains(*t)).count() as u64);
    }
}

impl Engine for C19 {
    fn id(&self) -> &'static str {
        "C19"
    }
    fn level(&self) -> &'static str {
        "fault_enumeration"
    }
    fn rule(&self) -> String {
        "case = (directory tree, fault kind). Trees: every subset (<= bound files, at least one name) of a fixed alphabet of file names (names with spaces, non-ASCII, nested directories, `n.md.md`, non-note files, optional `.iwe/config.toml`), note contents T1/T2/T3 assigned by alphabet position (+ rotation), all of which `normalize` changes, of different lengths. Per case the real `iwe` binary (built from /repo) runs in a scratch copy of the tree: fault-free runs traced with strace (discovery without -P; then restricted by -P to the files of the tree and every path touched below it) give the list of file-affecting syscalls; fault kinds enospc/edquot/kill inject at EVERY syscall name x EVERY index k of that list (pass M: main thread only = one pure fault in the single-threaded write phase; pass T: -f, the k-th call of every other thread = fault sequences in the read phase); fsize-default/fsize-ignored run under RLIMIT_FSIZE = L for EVERY L in 0..=longest note text. The k/L loop is repeated until every (thread class, syscall, file) triple / (L, victim file) pair of the fault-free trace has been hit (write order follows HashMap iteration) or the round cap. Oracle (own path->key mapping; only Graph::import/export defines the text): fault-free — every note file holds the export's text at the path it was read from, nothing created/deleted, non-note files byte- and mtime-identical; faulted — every `.md` file holds a complete old or complete new text. A case is non-trivial iff the fault-free run changes at least one note file and (for a fault kind) at least one fault point hit a call on a file of the tree.".into()
    }
    fn bound(&self, tier: Tier) -> String {
        match tier {
            Tier::Quick => format!("all trees of 1..=3 files over {} names, plus the configuration with the library in a sub-directory with every other name and with every pair of the first four notes, x faults {:?}; every traced syscall index k and every byte limit L of each tree; <= {} rounds per loop", ALPHA_QUICK.len(), FAULTS_QUICK, MAX_ROUNDS_QUICK),
            Tier::Thorough => format!(
                "all trees of 1..=4 files over the {} quick names x 3 content rotations; all trees of 1..=2 files (3 rotations) and of 3 files (rotation 0) over {} names that contain one of the {} additional names; x faults {:?}; every traced syscall index k and every byte limit L of each tree; <= {} rounds per loop",
                ALPHA_QUICK.len(),
                ALPHA_QUICK.len() + ALPHA_MORE.len(),
                ALPHA_MORE.len(),
                FAULTS_THOROUGH,
                MAX_ROUNDS_THOROUGH
            ),
        }
    }
    fn assumptions(&self) -> Vec<String> {
        vec![
            "faults are injected at syscall granularity: an errno fault makes the call fail without executing it (strace error injection), SIGKILL arrives at syscall entry, RLIMIT_FSIZE cuts a write at byte L; states between two syscalls are equal to the state at the next syscall's entry".into(),
            "power loss / unsynced page cache is outside (needs a block-device model); what is read back is the page-cache view".into(),
            "no symbolic links, no unreadable files, no concurrent writer in the tree; file modes/ownership are not compared".into(),
            "the iwe binary runs with RAYON_NUM_THREADS=2; strace 6.1 counts `when=k` per thread and syscall number".into(),
            "the text a note must hold is Graph::import(..).export() of the tree's notes under the harness' own path->key mapping (strip one `.md`), computed in-process from liwe (path dependency on /repo)".into(),
            "under a fault only note files are judged (the statement's second sentence); a left-over non-note file such as `a.md.tmp` is a don't-care, counted in counters.dont_care_leftover_non_note_files".into(),
        ]
    }
    fn enumerate(&self, tier: Tier, emit: &mut dyn FnMut(&str)) {
        // make sure the binary exists before any case runs (one build per check run, see iwe_bin)
        let _ = iwe_bin();
        let faults = match tier {
            Tier::Quick => FAULTS_QUICK,
            Tier::Thorough => FAULTS_THOROUGH,
        };
        trees(tier, &mut |files| {
            let t = tree_string(&files);
            for f in faults {
                emit(&format!("tree={}|fault={}", t, f));
            }
        });
    }
    fn features(&self, case: &str) -> Vec<String> {
        match parse_case(case) {
            Some((files, fault)) => {
                let mut f = tree_features(&files, model(&files).ok().as_ref());
                f.push(format!("fault:{}", fault));
                f
            }
            None => vec![],
        }
    }
    fn horizon_s(&self) -> Option<u64> {
        Some(600)
    }
    fn extra_coverage(&self, _tier: Tier) -> Value {
        json!({
            "binary_under_test": std::env::var(ENV_BIN).unwrap_or_else(|_| format!("{}/release/iwe (cargo build --release --offline --locked --manifest-path {}/Cargo.toml -p iwe)", IWE_TARGET_DIR, REPO)),
            "fault_point_definition": "counters.fault_points = number of (syscall name, k) resp. byte limits L enumerated (first round); counters.traced_fault_runs + fsize_runs = executions including the coverage rounds",
        })
    }
    fn run(&self, case: &str, ctx: &Ctx) -> CaseResult {
        let mut res = CaseResult::default();
        let t_case = Instant::now();
        let (files, fault) = match parse_case(case) {
            Some(x) => x,
            None => {
                res.outcome = "bad-case".into();
                res.failures.push(Failure { clause: "bad-case".into(), site: String::new(), features: vec![], detail: format!("cannot parse case {:?}", case) });
                return res;
            }
        };
        let m = match model(&files) {
            Ok(m) => m,
            Err(_) => {
                // a panic in import/export is C03's business
                res.outcome = "panic-skip".into();
                return res;
            }
        };
        let mut feats = tree_features(&files, Some(&m));
        feats.push(format!("fault:{}", fault));
        let max_rounds = match ctx.tier {
            Tier::Quick => MAX_ROUNDS_QUICK,
            Tier::Thorough => MAX_ROUNDS_THOROUGH,
        };
        let sc = Scratch::new(case);
        let root = sc.dir.join("lib");
        let root_s = root.to_string_lossy().to_string();
        let log = sc.dir.join("trace.log");
        let mut acc = Acc { failures: BTreeMap::new(), counters: BTreeMap::new(), classes: BTreeSet::new(), runs: 0 };

        // ---- fault-free discovery run (all threads, no path filter)
        build_tree(&root, &files);
        let before = snapshot(&root);
        // how liwe::fs itself keys the files (diagnosis only; the oracle uses its own mapping)
        let loader_note = {
            let lib = if m.lib_rel.is_empty() { root.clone() } else { root.join(&m.lib_rel) };
            match guarded(|| liwe::fs::new_for_path(&lib)) {
                Ok(st) => {
                    // path-derived keys: tree-relative path inside the library minus one `.md`
                    let mut mine: Vec<String> = m
                        .key_of
                        .keys()
                        .map(|n| {
                            let rel = if m.lib_rel.is_empty() { n.as_str() } else { n.strip_prefix(&format!("{}/", m.lib_rel)).unwrap_or(n) };
                            rel[..rel.len() - 3].to_string()
                        })
                        .collect();
                    mine.sort();
                    let mut theirs: Vec<String> = st.keys().cloned().collect();
                    theirs.sort();
                    if mine != theirs {
                        format!(" (liwe::fs::new_for_path keys the library as {:?}; path-derived keys are {:?})", theirs, mine)
                    } else {
                        String::new()
                    }
                }
                Err(p) => format!(" (liwe::fs::new_for_path panicked: {})", trunc(&p.1, 80)),
            }
        };
        let disc = run_traced(&root, &log, true, None, None);
        let refnew = snapshot(&root);
        acc.runs += 1;
        acc.count("reference_runs", 1);
        let changed_notes = m.old.keys().filter(|k| refnew.files.get(*k).map(|e| &e.bytes) != Some(&m.old[*k])).count();
        let disc_labels = labels(&disc.evs, &root_s);
        // path filter for all later runs: the files of the tree + every non-directory path touched below it
        let mut pset: BTreeSet<String> = files.iter().map(|f| format!("{}/{}", root_s, f.name)).collect();
        let prefix = format!("{}/", root_s);
        for (i, _) in &disc_labels {
            for p in &disc.evs[*i].paths {
                if p.starts_with(&prefix) {
                    pset.insert(p.clone());
                }
            }
        }
        let pset: Vec<String> = pset.into_iter().collect();
        // every file the run changed or created must be accounted for by a traced write-side call
        // (otherwise fault injection would silently miss the writes: fail loudly instead)
        for (name, e) in &refnew.files {
            if before.files.get(name) != Some(e) {
                let seen = disc_labels.iter().any(|(i, lab)| {
                    let k = syscall_kind(&disc.evs[*i].sys);
                    (matches!(k, "write" | "rename" | "trunc") || lab.contains("/wr:")) && disc.evs[*i].paths.iter().any(|p| p == &format!("{}/{}", root_s, name))
                });
                if !seen {
                    acc.fail(Failure {
                        clause: "trace-gap".into(),
                        site: "unseen-write".into(),
                        features: feats.clone(),
                        detail: format!("file {:?} changed in the fault-free run but no traced syscall accounts for it (the harness' syscall list is incomplete)", name),
                    });
                }
            }
        }

        if fault == "none" {
            check_fault_free(&m, &before, &refnew, &disc.status, "traced run", &feats, &loader_note, &mut res.failures);
            // the same without strace, twice (write order differs per process)
            for _ in 0..2 {
                build_tree(&root, &files);
                let st = run_plain(&root);
                let after = snapshot(&root);
                acc.runs += 1;
                let mut fs = vec![];
                check_fault_free(&m, &before, &after, &st, "plain run", &feats, &loader_note, &mut fs);
                for f in fs {
                    if !res.failures.iter().any(|g| g.clause == f.clause && g.site == f.site) {
                        res.failures.push(f);
                    }
                }
            }
            // one failure per (clause, site), in a fixed order
            let mut dedup: BTreeMap<(String, String), Failure> = BTreeMap::new();
            for f in res.failures.drain(..) {
                dedup.entry((f.clause.clone(), f.site.clone())).or_insert(f);
            }
            res.failures = dedup.into_values().collect();
            res.outcome = if res.failures.is_empty() {
                if changed_notes > 0 { "rewritten-in-place".into() } else { "nothing-to-change".into() }
            } else {
                format!("violated:{}", res.failures.iter().map(|f| f.clause.clone()).collect::<BTreeSet<_>>().into_iter().collect::<Vec<_>>().join("+"))
            };
            res.nontrivial = changed_notes > 0;
        } else {
            if disc.status != "exit:0" {
                // reported by the fault=none case of the same tree; the fault loop is still meaningful
                acc.count("reference_run_failed", 1);
            }
            match fault.as_str() {
                "enospc" | "edquot" | "kill" => {
                    // reference traces with the path filter: all threads (-f) and main thread only
                    build_tree(&root, &files);
                    let ref_all = run_traced(&root, &log, true, Some(&pset), None);
                    build_tree(&root, &files);
                    let ref_main = run_traced(&root, &log, false, Some(&pset), None);
                    acc.runs += 2;
                    acc.count("reference_runs", 2);
                    // the filtered -f trace must show the same calls below the tree as the discovery run
                    let a: BTreeSet<String> = disc_labels.iter().map(|x| x.1.clone()).collect();
                    let b: BTreeSet<String> = labels(&ref_all.evs, &root_s).into_iter().map(|x| x.1).collect();
                    if a != b {
                        acc.fail(Failure {
                            clause: "trace-gap".into(),
                            site: "path-filter".into(),
                            features: feats.clone(),
                            detail: format!("strace -P shows a different set of calls than the unfiltered trace: only unfiltered {:?}, only filtered {:?}", a.difference(&b).collect::<Vec<_>>(), b.difference(&a).collect::<Vec<_>>()),
                        });
                    }
                    self.fault_loop_strace(&files, &m, &fault, &feats, &sc, &pset, &ref_main.evs, &ref_all.evs, &refnew, &before, max_rounds, &mut acc);
                }
                "fsize-default" | "fsize-ignored" => {
                    self.fault_loop_fsize(&files, &m, &fault, &feats, &sc, &refnew, &before, max_rounds, &mut acc);
                }
                other => {
                    res.outcome = "bad-case".into();
                    res.failures.push(Failure { clause: "bad-case".into(), site: String::new(), features: vec![], detail: format!("unknown fault kind {:?}", other) });
                    return res;
                }
            }
            res.outcome = acc.classes.iter().cloned().collect::<Vec<_>>().join("|");
            if res.outcome.is_empty() {
                res.outcome = "no-fault-point".into();
            }
            let hit = ["M_triples_covered", "T_triples_covered", "fsize_victim_pairs_covered"].iter().map(|k| acc.counters.get(*k).copied().unwrap_or(0)).sum::<u64>();
            res.nontrivial = changed_notes > 0 && hit > 0;
        }
        for (_, f) in std::mem::take(&mut acc.failures) {
            res.failures.push(f);
        }
        res.failures.sort_by(|a, b| (a.clause.as_str(), a.site.as_str()).cmp(&(b.clause.as_str(), b.site.as_str())));
        let r = acc.runs;
        acc.count("iwe_runs", r);
        res.transitions = r;
        res.counters = acc.counters;
        if std::env::var("MC_C19_DEBUG").is_ok() {
            eprintln!("C19 {} -> {} {:?} in {:.2}s", case, res.outcome, res.counters, t_case.elapsed().as_secs_f64());
        }
        res
    }
}
