//! C14 — a file on disk, its URI and its note key always name the same note.
//!
//! A case is (base path kind, set of file names). The library is written to a scratch directory,
//! loaded by the real disk loader exactly as `iwes::main_loop` does with `state: None`
//! (`liwe::fs::new_for_path(&PathBuf::from_str(base_path))` handed to `Server::new` with
//! `sequential_ids: None`), and addressed only through URIs built by `Url::from_file_path`.
//!
//! The `Server` is driven directly instead of through `main_loop`: every clause of the property is
//! about the synchronous key <-> URI <-> file mapping inside the handlers; the message loop only
//! adds threading (owned by C11/C12) and needs the process-global hook sink, which would make the
//! cases order-dependent inside one worker. The two lines of `main_loop`'s disk branch are
//! replicated literally.
//!
//! Case string: `base=<plain|space|slash>|files=<name>;<name>...` (names are literal relative paths
//! without the `.md` extension, separated by `;`).

use crate::core::*;
use iwes::router::server::Server;
use iwes::router::{LspClient, ServerConfig};
use liwe::model::config::Configuration;
use lsp_types::*;
use std::collections::BTreeSet;
use std::path::PathBuf;
use std::str::FromStr;
use std::sync::atomic::{AtomicU64, Ordering};

pub struct C14;

pub const NAMES: &[&str] = &["a", "b c", "é", "x%20y", "a.b", "n.md", "d/a", "d e/a", "a#b", "v1.2/a", "i.mdx"];
pub const BASES: &[&str] = &["plain", "space", "slash", "symlink"];
const LINKER: &str = "zz";

static COUNTER: AtomicU64 = AtomicU64::new(0);

fn idx(name: &str) -> usize {
    NAMES.iter().position(|n| *n == name).unwrap_or_else(|| panic!("C14: unknown file name {:?}", name))
}
fn title(name: &str) -> String {
    format!("T{}", idx(name))
}
fn changed_title(name: &str) -> String {
    format!("CH{}", idx(name))
}
fn text(name: &str) -> String {
    format!("# {}\n\nbody {}\n", title(name), idx(name))
}
fn changed_text(name: &str) -> String {
    format!("# {}\n\nchanged {}\n", changed_title(name), idx(name))
}
fn linker_text(files: &[String]) -> String {
    let mut s = String::from("# ZZ\n");
    for f in files {
        // angle brackets: the destination is the literal relative path, whatever characters it has
        s.push_str(&format!("\n[x](<{}>)\n", f));
    }
    s
}

fn parse(case: &str) -> (String, Vec<String>) {
    let rest = case.strip_prefix("base=").unwrap_or_else(|| panic!("C14 case {:?}", case));
    let (base, files) = rest.split_once("|files=").unwrap_or_else(|| panic!("C14 case {:?}", case));
    (base.to_string(), files.split(';').filter(|s| !s.is_empty()).map(|s| s.to_string()).collect())
}

/// input-side features of one file name
fn name_features(name: &str) -> Vec<String> {
    let mut f = vec![];
    if name.contains(' ') {
        f.push("name-has-space".into());
    }
    if !name.is_ascii() {
        f.push("name-non-ascii".into());
    }
    if name.contains('%') {
        f.push("name-has-percent".into());
    }
    if name.contains('#') {
        f.push("name-has-hash".into());
    }
    // what a file:// URI must percent-encode in a path
    if name.chars().any(|c| !(c.is_ascii_alphanumeric() || "/._-~".contains(c))) {
        f.push("name-needs-percent-encoding".into());
    }
    // characters that mean something else when the raw name is parsed as a relative URL
    if name.contains('%') || name.contains('#') || name.contains('?') {
        f.push("name-has-url-syntax".into());
    }
    if name.ends_with(".md") {
        f.push("name-ends-md".into());
    } else if name.rsplit('/').next().unwrap_or("").contains('.') {
        f.push("name-has-dot".into());
    }
    if name.contains('/') {
        f.push("name-nested".into());
    }
    f
}

fn base_features(base: &str) -> Vec<String> {
    match base {
        "plain" => vec!["base-plain".into()],
        "space" => vec!["base-has-space".into(), "base-path-needs-encoding".into()],
        "slash" => vec!["base-trailing-slash".into()],
        "symlink" => vec!["base-is-symlink".into()],
        other => panic!("C14: unknown base {:?}", other),
    }
}

/// the file's URI is not simply `file://` + its raw path (something in it is percent-encoded)
fn add_uri_feature(f: &mut Vec<String>) {
    if f.iter().any(|x| x == "base-path-needs-encoding" || x == "name-needs-percent-encoding") {
        f.push("uri-needs-percent-encoding".into());
    }
}

fn file_features(base: &str, name: &str) -> Vec<String> {
    let mut f = base_features(base);
    f.extend(name_features(name));
    add_uri_feature(&mut f);
    f
}

fn case_features(base: &str, files: &[String]) -> Vec<String> {
    let mut f: BTreeSet<String> = base_features(base).into_iter().collect();
    for n in files {
        f.extend(name_features(n));
    }
    let mut v: Vec<String> = f.into_iter().collect();
    add_uri_feature(&mut v);
    v
}

struct Scratch {
    root: PathBuf,
}
impl Drop for Scratch {
    fn drop(&mut self) {
        let _ = std::fs::remove_dir_all(&self.root);
    }
}

struct Lib {
    _scratch: Scratch,
    dir: PathBuf,
    base_path: String,
}

fn build(base: &str, files: &[String]) -> Lib {
    let n = COUNTER.fetch_add(1, Ordering::SeqCst);
    let root = PathBuf::from(format!("/verif/target/run/C14/{}-{}", std::process::id(), n));
    let _ = std::fs::remove_dir_all(&root);
    let dir = root.join(if base == "space" { "my lib" } else { "lib" });
    if base == "symlink" {
        // the configured library path is a symbolic link to the directory that holds the files;
        // the editor addresses the files through the configured path
        let real = root.join("real");
        std::fs::create_dir_all(&real).expect("C14 scratch dir");
        std::os::unix::fs::symlink(&real, &dir).expect("C14 scratch symlink");
    }
    std::fs::create_dir_all(&dir).expect("C14 scratch dir");
    let write = |name: &str, content: &str| {
        let p = dir.join(format!("{}.md", name));
        std::fs::create_dir_all(p.parent().unwrap()).expect("C14 scratch sub dir");
        std::fs::write(&p, content).expect("C14 scratch file");
    };
    for f in files {
        write(f, &text(f));
    }
    write(LINKER, &linker_text(files));
    let base_path = format!("{}{}", dir.to_string_lossy(), if base == "slash" { "/" } else { "" });
    Lib { _scratch: Scratch { root }, dir, base_path }
}

impl Lib {
    fn path(&self, name: &str) -> PathBuf {
        self.dir.join(format!("{}.md", name))
    }
    fn uri(&self, name: &str) -> Url {
        Url::from_file_path(self.path(name)).expect("absolute path")
    }
    /// the tree file a response URI opens, if any (by name)
    fn file_of(&self, u: &Url, files: &[String]) -> Option<String> {
        let p = u.to_file_path().ok()?;
        let c = std::fs::canonicalize(&p).ok()?;
        files.iter().map(|s| s.as_str()).chain(std::iter::once(LINKER)).find(|f| std::fs::canonicalize(self.path(f)).ok().as_ref() == Some(&c)).map(|s| s.to_string())
    }
}

fn td(u: &Url) -> TextDocumentIdentifier {
    TextDocumentIdentifier { uri: u.clone() }
}

/// titles of all notes the server knows: one `🔗 <title>` completion item per note
fn note_titles(s: &Server, at: &Url) -> Result<Vec<String>, (String, String)> {
    guarded(|| {
        let items = match s.handle_completion(CompletionParams {
            text_document_position: TextDocumentPositionParams { text_document: td(at), position: Position::new(0, 0) },
            context: None,
            work_done_progress_params: Default::default(),
            partial_result_params: Default::default(),
        }) {
            CompletionResponse::List(l) => l.items,
            CompletionResponse::Array(v) => v,
        };
        let mut v: Vec<String> = items.iter().filter_map(|i| i.label.strip_prefix("🔗 ").map(|x| x.to_string())).collect();
        v.sort();
        v
    })
}

fn formatting(s: &Server, u: &Url) -> Result<String, (String, String)> {
    guarded(|| {
        s.handle_document_formatting(DocumentFormattingParams { text_document: td(u), options: Default::default(), work_done_progress_params: Default::default() })
            .first()
            .map(|e| e.new_text.clone())
            .unwrap_or_default()
    })
}

fn workspace_symbols(s: &Server) -> Result<Vec<(String, Url)>, (String, String)> {
    guarded(|| match s.handle_workspace_symbols(WorkspaceSymbolParams { query: "".into(), work_done_progress_params: Default::default(), partial_result_params: Default::default() }) {
        WorkspaceSymbolResponse::Flat(v) => v.into_iter().map(|x| (x.name, x.location.uri)).collect(),
        WorkspaceSymbolResponse::Nested(v) => v
            .into_iter()
            .map(|x| {
                let u = match x.location {
                    OneOf::Left(l) => l.uri,
                    OneOf::Right(l) => l.uri,
                };
                (x.name, u)
            })
            .collect(),
    })
}

/// a workspace symbol is named by its outline path `A • B • C`; it belongs to the note titled C
fn is_symbol_of(name: &str, title: &str) -> bool {
    name.rsplit(" • ").next() == Some(title)
}

fn site_of_panic(p: &(String, String)) -> String {
    format!("no-answer:{}", panic_site(p))
}

impl Engine for C14 {
    fn id(&self) -> &'static str {
        "C14"
    }
    fn rule(&self) -> String {
        format!(
            "base paths {{plain `…/lib`, containing a space `…/my lib`, plain with a trailing slash, a symbolic link to the directory that holds the files}} x every non-empty subset (up to the size bound) of the file names {:?} (`n.md` is the file `n.md.md`), each file `<name>.md` = a titled note, plus a linking note `zz.md` with one block reference `[x](<name>)` per file; written to a scratch directory, loaded by the real disk loader and served by a real Server exactly as main_loop's `state: None` branch does; URIs only from Url::from_file_path. Clauses per file f: load — exactly one note carries f's title and there are |files|+1 notes; formatting(uri(f)) answers f's text; backlink — references(uri(f)) contains zz; definition — go-to-definition on zz's link to f answers a URI that opens f; uris — every URI in the answers (workspace symbols, references, definition, document symbols) maps back with Url::to_file_path to a file of the tree, and the symbol titled like f opens f; didChange(uri(f), new titled text) — the note count is unchanged, f's old title is gone and exactly one note carries the new one; didSave(uri(f), another titled text) — likewise. non-trivial = the library loaded and at least one clause was evaluated on a handler answer",
            NAMES
        )
    }
    fn bound(&self, tier: Tier) -> String {
        let k = match tier {
            Tier::Quick => 3,
            Tier::Thorough => 4,
        };
        format!("4 base paths x all non-empty subsets of size <= {} of {} file names", k, NAMES.len())
    }
    fn assumptions(&self) -> Vec<String> {
        vec![
            "the Server is driven directly (same construction as main_loop with state: None); the message loop itself is C11/C12's subject".into(),
            "note identity is observed through titles (completion items list one entry per note), never through keys".into(),
            "a link to a file is written with its literal relative path in angle brackets".into(),
            "the scratch directory /verif/target/run/C14/<pid>-<n> itself needs no percent-encoding; only the library directory under it varies".into(),
        ]
    }
    fn enumerate(&self, tier: Tier, emit: &mut dyn FnMut(&str)) {
        let k = match tier {
            Tier::Quick => 3,
            Tier::Thorough => 4,
        };
        let n = NAMES.len();
        for size in 1..=k {
            // subsets in lexicographic index order, smallest first
            let mut sel: Vec<usize> = (0..size).collect();
            loop {
                let files: Vec<&str> = sel.iter().map(|i| NAMES[*i]).collect();
                for b in BASES {
                    emit(&format!("base={}|files={}", b, files.join(";")));
                }
                // next combination
                let mut i = size;
                while i > 0 && sel[i - 1] == n - size + (i - 1) {
                    i -= 1;
                }
                if i == 0 {
                    break;
                }
                sel[i - 1] += 1;
                for j in i..size {
                    sel[j] = sel[j - 1] + 1;
                }
            }
        }
    }
    fn features(&self, case: &str) -> Vec<String> {
        let (base, files) = parse(case);
        case_features(&base, &files)
    }
    fn run(&self, case: &str, _ctx: &Ctx) -> CaseResult {
        let (base, files) = parse(case);
        let lib = build(&base, &files);
        let mut fs: Vec<Failure> = vec![];
        let mut tr = 0u64;
        let mut judged = 0u64;
        let cf = case_features(&base, &files);
        // the scratch root differs from run to run: keep it out of the report
        let root = lib._scratch.root.to_string_lossy().to_string();
        let mut push = |clause: &str, site: String, feats: &[String], detail: String| {
            fs.push(Failure { clause: clause.into(), site, features: feats.to_vec(), detail: detail.replace(&root, "<scratch>") });
        };

        // exactly what main_loop does for `state: None`
        let base_path = lib.base_path.clone();
        let started = guarded(|| {
            let state = liwe::fs::new_for_path(&PathBuf::from_str(&base_path).expect("to work"));
            Server::new(ServerConfig { base_path: base_path.clone(), state, sequential_ids: None, lsp_client: LspClient::Unknown, configuration: Configuration::default() })
        });
        tr += 1;
        let mut s = match started {
            Ok(s) => s,
            Err(p) => {
                push("load", site_of_panic(&p), &cf, format!("loading {:?} with files {:?}: panic at {}: {}", lib.base_path, files, p.0, trunc(&p.1, 200)));
                return CaseResult { transitions: tr, nontrivial: false, outcome: "load-panic".into(), failures: fs, ..Default::default() };
            }
        };
        let zz = lib.uri(LINKER);

        // ---- load: one note per file
        tr += 1;
        let titles0 = match note_titles(&s, &zz) {
            Ok(t) => t,
            Err(p) => {
                push("load", site_of_panic(&p), &cf, format!("listing the notes (completion in zz): panic at {}: {}", p.0, trunc(&p.1, 200)));
                vec![]
            }
        };
        judged += 1;
        if titles0.len() != files.len() + 1 {
            push("load", "note-count".into(), &cf, format!("{} files written ({:?} + zz), the server has {} notes titled {:?}", files.len() + 1, files, titles0.len(), titles0));
        }
        for f in &files {
            let c = titles0.iter().filter(|t| **t == title(f)).count();
            if c != 1 {
                push("load", "note-per-file".into(), &file_features(&base, f), format!("file {:?}: {} notes carry its title {:?}; notes: {:?}", lib.path(f), c, title(f), titles0));
            }
        }

        // ---- per file: formatting, backlink, definition, uris in answers
        let mut uris: Vec<(String, Url, Vec<String>)> = vec![]; // (where from, uri, features of the file it was asked for)
        for (i, f) in files.iter().enumerate() {
            let ff = file_features(&base, f);
            let u = lib.uri(f);
            tr += 1;
            judged += 1;
            match formatting(&s, &u) {
                Ok(t) if t == text(f) => {}
                Ok(t) => push("formatting", "other-content".into(), &ff, format!("formatting({}) answers {:?}, the file {:?} holds {:?}", u, t, lib.path(f), text(f))),
                Err(p) => push("formatting", site_of_panic(&p), &ff, format!("formatting({}) of the loaded file {:?}: panic at {}: {}", u, lib.path(f), p.0, trunc(&p.1, 200))),
            }
            tr += 1;
            let refs = guarded(|| {
                s.handle_references(ReferenceParams {
                    text_document_position: TextDocumentPositionParams { text_document: td(&u), position: Position::new(0, 0) },
                    context: ReferenceContext { include_declaration: false },
                    work_done_progress_params: Default::default(),
                    partial_result_params: Default::default(),
                })
            });
            match refs {
                Ok(locs) => {
                    let from: Vec<Option<String>> = locs.iter().map(|l| lib.file_of(&l.uri, &files)).collect();
                    if !from.iter().any(|x| x.as_deref() == Some(LINKER)) {
                        push("backlink", "missing".into(), &ff, format!("zz links to {:?} as `[x](<{}>)`, but references({}) answers {:?}", lib.path(f), f, u, locs.iter().map(|l| l.uri.to_string()).collect::<Vec<_>>()));
                    }
                    for l in locs {
                        uris.push((format!("references({})", f), l.uri, ff.clone()));
                    }
                }
                Err(p) => push("backlink", site_of_panic(&p), &ff, format!("references({}): panic at {}: {}", u, p.0, trunc(&p.1, 200))),
            }
            // go-to-definition on the link to f in zz (line 2 + 2i, inside the link text)
            tr += 1;
            let def = guarded(|| {
                s.handle_goto_definition(GotoDefinitionParams {
                    text_document_position_params: TextDocumentPositionParams { text_document: td(&zz), position: Position::new(2 + 2 * i as u32, 1) },
                    work_done_progress_params: Default::default(),
                    partial_result_params: Default::default(),
                })
            });
            match def {
                Ok(GotoDefinitionResponse::Scalar(l)) => {
                    let opens = lib.file_of(&l.uri, &files);
                    if opens.as_deref() != Some(f.as_str()) {
                        push("definition", "opens-other-file".into(), &ff, format!("definition of zz's link `[x](<{}>)` answers {}, which opens {:?} (to_file_path {:?}); meant {:?}", f, l.uri, opens, l.uri.to_file_path().ok(), lib.path(f)));
                    }
                }
                Ok(other) => push("definition", "no-location".into(), &ff, format!("definition of zz's link `[x](<{}>)` ({}, line {}) answers {:?}", f, zz, 2 + 2 * i, other)),
                Err(p) => push("definition", site_of_panic(&p), &ff, format!("definition on zz's link to {:?}: panic at {}: {}", f, p.0, trunc(&p.1, 200))),
            }
            tr += 1;
            if let Ok(syms) = guarded(|| s.handle_document_symbols(DocumentSymbolParams { text_document: td(&u), work_done_progress_params: Default::default(), partial_result_params: Default::default() })) {
                for x in syms {
                    uris.push((format!("documentSymbol({})", f), x.location.uri, ff.clone()));
                }
            }
        }
        // workspace symbols: every URI opens a file of the tree; the root symbol titled like f opens f
        tr += 1;
        match workspace_symbols(&s) {
            Ok(syms) => {
                for f in &files {
                    let ff = file_features(&base, f);
                    let mine: Vec<&(String, Url)> = syms.iter().filter(|(n, _)| is_symbol_of(n, &title(f))).collect();
                    judged += 1;
                    for (_, u) in &mine {
                        let opens = lib.file_of(u, &files);
                        if opens.as_deref() != Some(f.as_str()) {
                            push("uris", "symbol-opens-other-file".into(), &ff, format!("workspace symbol {:?} (the note of {:?}) has URI {}, which opens {:?} (to_file_path {:?})", title(f), lib.path(f), u, opens, u.to_file_path().ok()));
                        }
                    }
                    if mine.is_empty() {
                        push("uris", "no-symbol".into(), &ff, format!("no workspace symbol named {:?}; symbols {:?}", title(f), syms.iter().map(|x| x.0.clone()).collect::<Vec<_>>()));
                    }
                }
                for (n, u) in &syms {
                    if !files.iter().any(|f| is_symbol_of(n, &title(f))) {
                        uris.push((format!("workspace/symbol {:?}", n), u.clone(), cf.clone()));
                    }
                }
            }
            Err(p) => push("uris", site_of_panic(&p), &cf, format!("workspace/symbol: panic at {}: {}", p.0, trunc(&p.1, 200))),
        }
        for (wher, u, ff) in &uris {
            if lib.file_of(u, &files).is_none() {
                push("uris", "not-a-file-of-the-tree".into(), ff, format!("{} answers the URI {}; to_file_path {:?} is not a file of the tree", wher, u, u.to_file_path().ok()));
            }
        }

        // ---- didChange(uri(f)): updates THAT note, creates none
        let mut expect: Vec<String> = titles0.clone();
        let loaded_ok = titles0.len() == files.len() + 1 && files.iter().all(|f| titles0.iter().filter(|t| **t == title(f)).count() == 1);
        if loaded_ok {
            for f in &files {
                let ff = file_features(&base, f);
                let u = lib.uri(f);
                tr += 1;
                let r = guarded(|| {
                    s.handle_did_change_text_document(DidChangeTextDocumentParams {
                        text_document: VersionedTextDocumentIdentifier { uri: u.clone(), version: 2 },
                        content_changes: vec![TextDocumentContentChangeEvent { range: None, range_length: None, text: changed_text(f) }],
                    })
                });
                if let Err(p) = r {
                    push("didChange", site_of_panic(&p), &ff, format!("didChange({}): panic at {}: {}", u, p.0, trunc(&p.1, 200)));
                    break;
                }
                for t in expect.iter_mut() {
                    if *t == title(f) {
                        *t = changed_title(f);
                    }
                }
                expect.sort();
                tr += 1;
                judged += 1;
                match note_titles(&s, &zz) {
                    Ok(now) => {
                        if now != expect {
                            let site = if now.len() != expect.len() { "second-note-created" } else { "other-note-changed" };
                            push("didChange", site.into(), &ff, format!("didChange({}) with a text titled {:?}: notes were {:?}, expected {:?}, are {:?}", u, changed_title(f), titles0, expect, now));
                            // continue from what the server has, so that the next file is judged on its own
                            expect = now;
                        }
                    }
                    Err(p) => {
                        push("didChange", site_of_panic(&p), &ff, format!("listing the notes after didChange({}): panic at {}: {}", u, p.0, trunc(&p.1, 200)));
                        break;
                    }
                }
            }
            // ---- didSave(uri(f), text): the same for the other edit notification
            for f in &files {
                let ff = file_features(&base, f);
                let u = lib.uri(f);
                let saved_title = format!("SV{}", idx(f));
                tr += 1;
                let r = guarded(|| {
                    s.handle_did_save_text_document(DidSaveTextDocumentParams { text_document: td(&u), text: Some(format!("# {}\n\nsaved {}\n", saved_title, idx(f))) })
                });
                if let Err(p) = r {
                    push("didSave", site_of_panic(&p), &ff, format!("didSave({}): panic at {}: {}", u, p.0, trunc(&p.1, 200)));
                    break;
                }
                let before = expect.clone();
                for t in expect.iter_mut() {
                    if *t == changed_title(f) {
                        *t = saved_title.clone();
                    }
                }
                expect.sort();
                tr += 1;
                judged += 1;
                match note_titles(&s, &zz) {
                    Ok(now) => {
                        if now != expect {
                            let site = if now.len() != expect.len() { "second-note-created" } else { "other-note-changed" };
                            push("didSave", site.into(), &ff, format!("didSave({}) with a text titled {:?}: notes were {:?}, expected {:?}, are {:?}", u, saved_title, before, expect, now));
                            expect = now;
                        }
                    }
                    Err(p) => {
                        push("didSave", site_of_panic(&p), &ff, format!("listing the notes after didSave({}): panic at {}: {}", u, p.0, trunc(&p.1, 200)));
                        break;
                    }
                }
            }
            // every URI the server hands out afterwards still opens a file of the tree
            tr += 1;
            if let Ok(syms) = workspace_symbols(&s) {
                for (n, u) in &syms {
                    if lib.file_of(u, &files).is_none() {
                        let owner: Vec<String> = files.iter().filter(|f| is_symbol_of(n, &changed_title(f)) || is_symbol_of(n, &title(f))).flat_map(|f| file_features(&base, f)).collect();
                        let ff = if owner.is_empty() { cf.clone() } else { owner };
                        push("uris", "not-a-file-of-the-tree(after-didChange)".into(), &ff, format!("after the edits, workspace symbol {:?} has URI {}; to_file_path {:?} is not a file of the tree", n, u, u.to_file_path().ok()));
                    }
                }
            }
        }

        let outcome = if fs.is_empty() {
            "ok".to_string()
        } else {
            let mut cl: Vec<String> = fs.iter().map(|f| f.clause.clone()).collect();
            cl.sort();
            cl.dedup();
            format!("FAIL:{}", cl.join("+"))
        };
        // dedupe identical (clause, site, features) within the case: one root cause, one line
        let mut seen: BTreeSet<String> = BTreeSet::new();
        fs.retain(|f| seen.insert(format!("{}@{}@{}", f.clause, f.site, f.features.join(","))));
        drop(s);
        CaseResult { transitions: tr, nontrivial: judged > 1, outcome, failures: fs, ..Default::default() }
    }
}
