//! C08 — rename moves a note and keeps every link pointing at it.

use crate::core::*;
use crate::drive::*;
use crate::edits;
use crate::libspace::{self, LibCase};
use crate::oracle::*;
use lsp_types::*;
use std::collections::{BTreeMap, HashMap};

pub struct C08;

const NEW_NAMES: &[&str] = &["9", "2", "d/9", "d/4"];

fn split_case(case: &str) -> (LibCase, String) {
    let case = case.strip_suffix("|pre=touch").unwrap_or(case);
    let (a, b) = case.rsplit_once("|new=").expect("C08 case");
    (LibCase::parse(a), b.to_string())
}

/// `...|pre=touch`: before the rename every note is sent once more, unchanged, through didChange
/// (a long-lived session: the index entries of every note have been replaced at least once)
fn is_touched(case: &str) -> bool {
    case.ends_with("|pre=touch")
}

fn internal_forms(owner: &str) -> Vec<String> {
    libspace::url_forms(owner).into_iter().filter(|u| !matches!(u.as_str(), "http" | "HTTPS" | "mailto" | "missing" | "bare:1")).collect()
}

/// content of a note with internal link destinations replaced by the key they resolve to
/// (mapped through `rename`), and refreshed texts wildcarded
fn content_key(text: &str, key: &str, rename: &dyn Fn(&str) -> String) -> Vec<B> {
    let d = dir_of(key);
    map_toks(canon_out(extract(text), false), &|ts| map_links(ts, &d, rename))
}

fn map_links(ts: Vec<Tok>, dir: &str, rename: &dyn Fn(&str) -> String) -> Vec<Tok> {
    ts.into_iter()
        .map(|t| match t {
            Tok::Link(kind, dest, inner) => {
                if is_external(&dest) {
                    Tok::Link(kind, dest, inner)
                } else {
                    let target = resolve(dir, &dest).map(|k| rename(&k)).unwrap_or(dest);
                    // text may be refreshed / emptied: not part of the note's content here
                    Tok::Link(if kind == "wikip" { "wikip".into() } else { "link".into() }, target, vec![])
                }
            }
            Tok::Image(d, inner) => Tok::Image(d, map_links(inner, dir, rename)),
            x => x,
        })
        .collect()
}

impl Engine for C08 {
    fn id(&self) -> &'static str {
        "C08"
    }
    fn rule(&self) -> String {
        format!(
            "libraries of the libspace alphabet (owner in {{1, 2, d/3}}, one link block over all placements x {{reg, empty, wiki, wikip}} x every internal url form, other notes titled or linking back) x the first link of the owner as rename site x new names {:?} (free, taken, in a sub-directory), on a freshly started server and (new name 9; thorough: all) on one that has received a didChange with the unchanged text for every note; textDocument/rename is answered by the real Server, the WorkspaceEdit is applied to a copy of the library (R9) and the result is re-scanned with the independent link scanner: taken name => error and no edit; otherwise the old key is gone, the new note exists with the same content, every link that resolved to the old key resolves to the new one with its text kept or equal to the note's title, every other link still resolves to the same note, notes without such a link are byte-identical. non-trivial = an edit was produced",
            NEW_NAMES
        )
    }
    fn bound(&self, tier: Tier) -> String {
        match tier {
            Tier::Quick => "owners {1, 2, d/3}; placements x 4 kinds x internal url forms; others in {titled, untitled, back, linked-title}; titles {plain, none, link}; 4 new names".into(),
            Tier::Thorough => "owners {1, 2, d/3, d/4, dx/5}; placements x all 6 kinds x internal url forms; others in {titled, untitled, back, linked-title}; titles {plain, none, link}; 4 new names; plus a second link block (6 placements x {reg, wikip} x internal url forms) in the renaming note for owners {1, 2, d/3}".into(),
        }
    }
    fn assumptions(&self) -> Vec<String> {
        vec![
            "the new name is accepted either as a library-relative key or relative to the directory of the note the rename was issued from".into(),
            "link text of a renamed link may be kept or become the note's title; whether other links of a rewritten note are re-formatted is not compared, only what they resolve to".into(),
        ]
    }
    fn enumerate(&self, tier: Tier, emit: &mut dyn FnMut(&str)) {
        // the deep space takes a few seconds: the quick tier runs it; thorough adds every note as
        // owner, the remaining link kinds and a second link block in the renaming note
        let deep = true;
        let thorough = tier == Tier::Thorough;
        let owners: Vec<&str> = if thorough { libspace::KEYS.to_vec() } else if deep { vec!["1", "2", "d/3"] } else { vec!["1", "d/3"] };
        let kinds: Vec<&str> = if thorough { libspace::KINDS.to_vec() } else { vec!["reg", "empty", "wiki", "wikip"] };
        let others: Vec<&str> = if deep { vec!["titled", "untitled", "back", "linked-title"] } else { vec!["titled", "back"] };
        let titles: Vec<&str> = if deep { vec!["plain", "none", "link"] } else { vec!["plain"] };
        for owner in &owners {
            for p in libspace::PLACEMENTS {
                for k in kinds.iter().copied() {
                    for u in internal_forms(owner) {
                        for o in &others {
                            for t in &titles {
                                for n in NEW_NAMES {
                                    let lc = LibCase { owner: owner.to_string(), title: t.to_string(), others: o.to_string(), ext: String::new(), blocks: vec![(p.to_string(), k.to_string(), u.clone())] };
                                    emit(&format!("{}|new={}", lc.to_string(), n));
                                    // the same rename in a session in which every note has been edited
                                    if *n == "9" || thorough {
                                        emit(&format!("{}|new={}|pre=touch", lc.to_string(), n));
                                    }
                                }
                            }
                        }
                    }
                }
            }
        }
        if thorough {
            for owner in ["1", "2", "d/3"] {
                for p in libspace::PLACEMENTS {
                    for k in ["reg", "wiki"] {
                        for u in internal_forms(owner) {
                            for p2 in ["block-ref", "inline-para", "table-cell", "quote", "item", "heading"] {
                                for k2 in ["reg", "wikip"] {
                                    for u2 in internal_forms(owner) {
                                        for n in NEW_NAMES {
                                            let lc = LibCase {
                                                owner: owner.to_string(),
                                                title: "plain".into(),
                                                others: "back".into(),
                                                ext: String::new(),
                                                blocks: vec![(p.to_string(), k.to_string(), u.clone()), (p2.to_string(), k2.to_string(), u2.clone())],
                                            };
                                            emit(&format!("{}|new={}", lc.to_string(), n));
                                        }
                                    }
                                }
                            }
                        }
                    }
                }
            }
        }
    }
    fn features(&self, case: &str) -> Vec<String> {
        let (lc, new) = split_case(case);
        let mut f = lc.features();
        if new.contains('/') {
            f.push("new-name-in-subdir".into());
        }
        f
    }
    fn run(&self, case: &str, _ctx: &Ctx) -> CaseResult {
        let (lc, new_name) = split_case(case);
        let lib = lc.build();
        let mut feats = lc.features();
        if new_name.contains('/') {
            feats.push("new-name-in-subdir".into());
        }
        let state: HashMap<String, String> = lib.iter().map(|(k, v)| (k.clone(), v.clone())).collect();
        let mut srv = match guarded(|| server(&state, "")) {
            Ok(s) => s,
            Err(_) => return CaseResult { outcome: "panic-skip".into(), ..Default::default() },
        };
        if is_touched(case) {
            feats.push("session-with-edits".into());
            let touched = guarded(|| {
                for (i, (k, t)) in lib.iter().enumerate() {
                    srv.handle_did_change_text_document(DidChangeTextDocumentParams {
                        text_document: VersionedTextDocumentIdentifier { uri: uri(k), version: i as i32 },
                        content_changes: vec![TextDocumentContentChangeEvent { range: None, range_length: None, text: t.clone() }],
                    });
                }
            });
            if touched.is_err() {
                return CaseResult { outcome: "panic-skip".into(), ..Default::default() };
            }
        }
        let owner_text = &lib[&lc.owner];
        let owner_dir = dir_of(&lc.owner);
        // rename site: first internal link of the owner that resolves inside the library tree
        let site = scan_links(owner_text).into_iter().find(|l| !is_external(&l.dest) && resolve(&owner_dir, &l.dest).is_some() && !(lc.title == "link" && pos16(owner_text, l.span.0).0 == 0));
        let Some(site) = site else {
            return CaseResult { outcome: "no-site".into(), ..Default::default() };
        };
        let old_key = resolve(&owner_dir, &site.dest).unwrap();
        if !lib.contains_key(&old_key) {
            return CaseResult { outcome: "dangling-site".into(), ..Default::default() };
        }
        if dir_of(&lc.owner) != "" {
            feats.push("rename-from-subdir".into());
        }
        if dir_of(&old_key) != "" {
            feats.push("target-in-subdir".into());
        }
        if old_key == lc.owner {
            feats.push("renames-itself".into());
        }
        // the note moves to another directory (under either reading of the new name)
        if dir_of(&new_name) != dir_of(&old_key) || resolve(&owner_dir, &new_name).map(|k| dir_of(&k) != dir_of(&old_key)).unwrap_or(false) {
            feats.push("rename-changes-directory".into());
        }
        // an ordinary link inside text that points at the renamed note and carries its own text
        for (k, t) in &lib {
            for l in scan_links(t) {
                let block = l.alone_in_para && !l.in_table;
                if !block && (l.kind == "reg") && !l.text.trim().is_empty() && resolve(&dir_of(k), &l.dest).as_deref() == Some(old_key.as_str()) {
                    if !feats.iter().any(|f| f == "inline-reg-link-with-text-to-renamed-note") {
                        feats.push("inline-reg-link-with-text-to-renamed-note".into());
                    }
                }
            }
        }
        let (line, col) = pos16(owner_text, site.span.0 + 1);
        let mut failures: Vec<Failure> = vec![];
        let mut push = |clause: &str, site: &str, detail: String, feats: &Vec<String>| {
            if !failures.iter().any(|f: &Failure| f.clause == clause && f.site == site) {
                failures.push(Failure { clause: clause.into(), site: site.into(), features: feats.clone(), detail });
            }
        };
        let res = guarded(|| {
            srv.handle_rename(RenameParams {
                text_document_position: TextDocumentPositionParams { text_document: TextDocumentIdentifier { uri: uri(&lc.owner) }, position: Position::new(line as u32, col as u32) },
                new_name: new_name.clone(),
                work_done_progress_params: Default::default(),
            })
        });
        let taken = lib.contains_key(&new_name) || resolve(&owner_dir, &new_name).map(|k| lib.contains_key(&k)).unwrap_or(false);
        let ctx = format!("library {:?}; rename of {} at {}:({},{}) to {:?}", lib, old_key, lc.owner, line, col, new_name);
        let mut outcome = "ok".to_string();
        let mut nontrivial = false;
        match res {
            Err(p) => {
                push("no-answer", &panic_site(&p), format!("rename panicked at {}: {}; {}", p.0, trunc(&p.1, 120), ctx), &feats);
                outcome = "panic".into();
            }
            Ok(Err(e)) => {
                if !taken {
                    push("refused", "", format!("rename to a free name was refused ({}); {}", e.message, ctx), &feats);
                }
                outcome = "refused".into();
            }
            Ok(Ok(None)) => {
                push("no-edit", "", format!("no edit although the cursor is inside the link {:?}; {}", site.dest, ctx), &feats);
                outcome = "none".into();
            }
            Ok(Ok(Some(edit))) => {
                nontrivial = true;
                if lib.contains_key(&new_name) {
                    push("taken-accepted", "", format!("renaming onto the existing note {} was not refused; {}", new_name, ctx), &feats);
                } else {
                    let mut lib2 = lib.clone();
                    let applied = edits::apply(&mut lib2, &edit);
                    if !applied.problems.is_empty() {
                        push("edit-shape", "", format!("edit cannot be applied cleanly: {:?}; {}", applied.problems, ctx), &feats);
                    }
                    let rel = resolve(&owner_dir, &new_name).unwrap_or_default();
                    let new_key = if lib2.contains_key(&new_name) && !lib.contains_key(&new_name) {
                        new_name.clone()
                    } else if lib2.contains_key(&rel) && !lib.contains_key(&rel) {
                        rel.clone()
                    } else {
                        String::new()
                    };
                    if lib2.contains_key(&old_key) {
                        push("old-key-remains", "", format!("the note still exists under {}; after: {:?}; {}", old_key, lib2, ctx), &feats);
                    }
                    if new_key.is_empty() {
                        push("new-key-missing", "", format!("no note under the new name; after: {:?}; {}", lib2, ctx), &feats);
                    } else {
                        let rename = |k: &str| if k == old_key { new_key.clone() } else { k.to_string() };
                        // content of the moved note
                        let a = content_key(&lib[&old_key], &old_key, &rename);
                        let b = content_key(&lib2[&new_key], &new_key, &|k| k.to_string());
                        if a != b {
                            push("content-changed", "", format!("content of the renamed note changed: {} ; before {:?} after {:?}; {}", first_diff(&a, &b), lib[&old_key], lib2[&new_key], ctx), &feats);
                        }
                        // links everywhere
                        for (k, t) in &lib {
                            let k2 = rename(k);
                            let Some(t2) = lib2.get(&k2) else {
                                if *k != old_key {
                                    push("note-vanished", "", format!("note {} vanished; {}", k, ctx), &feats);
                                }
                                continue;
                            };
                            let before = scan_links(t);
                            let after = scan_links(t2);
                            let links_to_old = before.iter().any(|l| !is_external(&l.dest) && resolve(&dir_of(k), &l.dest).as_deref() == Some(old_key.as_str()));
                            if !links_to_old && *k != old_key {
                                if t != t2 {
                                    push("unrelated-note-touched", "", format!("note {} has no link to {} but was changed: {:?} -> {:?}; {}", k, old_key, t, t2, ctx), &feats);
                                }
                                continue;
                            }
                            if before.len() != after.len() {
                                push("link-count", "", format!("note {}: {} links before, {} after: {:?} -> {:?}; {}", k, before.len(), after.len(), t, t2, ctx), &feats);
                                continue;
                            }
                            let title_new = match extract(&lib2[&new_key]).first() {
                                Some(B::Heading(t)) => Some(plain_text(t)),
                                _ => None,
                            };
                            for (x, y) in before.iter().zip(after.iter()) {
                                if is_external(&x.dest) {
                                    if x.dest != y.dest {
                                        push("other-link-changed", "external", format!("note {}: external link {:?} -> {:?}; {}", k, x.dest, y.dest, ctx), &feats);
                                    }
                                    continue;
                                }
                                let tb = resolve(&dir_of(k), &x.dest);
                                let ta = resolve(&dir_of(&k2), &y.dest);
                                let want = tb.as_ref().map(|t| rename(t));
                                if tb.is_none() {
                                    continue;
                                }
                                if ta != want {
                                    let which = if tb.as_deref() == Some(old_key.as_str()) { "link-not-following" } else { "other-link-changed" };
                                    let how = if x.alone_in_para && !x.in_table { "block" } else { "inline" };
                                    push(which, how, format!("note {}: {:?} resolved to {:?}; after the rename {:?} resolves to {:?}, expected {:?}; text {:?} -> {:?}; {}", k, x.dest, tb, y.dest, ta, want, t, t2, ctx), &feats);
                                } else if tb.as_deref() == Some(old_key.as_str()) && x.kind != "wiki" {
                                    let got = y.text.split_whitespace().collect::<Vec<_>>().join(" ");
                                    let kept = x.text.split_whitespace().collect::<Vec<_>>().join(" ");
                                    // a title that itself contains a link may be taken before or after that link's
                                    // text is refreshed (same don't-care as in C06)
                                    let title_old = match extract(&lib[&old_key]).first() {
                                        Some(B::Heading(t)) => Some(plain_text(t)),
                                        _ => None,
                                    };
                                    if got != kept && Some(&got) != title_new.as_ref() && Some(&got) != title_old.as_ref() {
                                        push("link-text", if x.alone_in_para && !x.in_table { "block" } else { "inline" }, format!("note {}: text of the renamed link {:?} was {:?}, now {:?} (title of the note: {:?}); {}", k, x.dest, x.text, y.text, title_new, ctx), &feats);
                                    }
                                }
                            }
                        }
                        // nothing else may appear
                        for k in lib2.keys() {
                            if *k != new_key && !lib.contains_key(k) {
                                push("extra-note", "", format!("unexpected new note {}; {}", k, ctx), &feats);
                            }
                        }
                    }
                }
                outcome = "edited".into();
            }
        }
        let _: BTreeMap<String, String> = BTreeMap::new();
        let outcome = if failures.is_empty() { outcome } else { failures.iter().map(|f| format!("{}:{}", f.clause, f.site)).collect::<Vec<_>>().join(",") };
        CaseResult { transitions: 2, nontrivial, outcome, failures, ..Default::default() }
    }
}
