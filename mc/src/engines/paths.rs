//! C15 — relative links written by iwe resolve back to the note they were written for.
//!
//! The space is the whole set of path *shapes* up to a depth: every (note key, linking directory)
//! pair over segments {a, b} and every link url of <= 4 segments over {a, b, ., ..} with the
//! `.md` / `./` / `.md.md` decorations, each from every directory. The oracle is a set of laws
//! without expected literals; the only reference code is `oracle::resolve` (own resolver: split
//! on '/', handle `.` and `..`, strip one `.md`) and `oracle::scan_links` (pulldown-cmark).
//!
//! Case strings (one case per law and element):
//!   L1|key=a/b|dir=a            Key API: from_rel_link_url(K.to_rel_link_url(D), D) == K
//!   L2|url=../a.md|dir=b        re-writing a resolved link from the same directory is equivalent
//!   L3|url=../a.md|dir=b        iwe's reader and the reference resolver agree (not above the root)
//!   L2d|url=../a.md|dir=b       formatting (import/export) of a note in D keeps the target of its block reference
//!   L4|key=a/b|dir=a|ext=.md    a note in D block-referencing K with the url iwe writes: import/export/re-import
//!   LC|key=a/b|dir=a            completion item offered in a note of D for K
//!   LX|dir=a                    "Extract section" in a note of D: the reference left behind names the created note
//!   LR|key=a/b|dir=a|new=z      rename of K (to `new`): the links re-written in a note of D name the note's new key

use crate::core::*;
use crate::drive::*;
use crate::oracle;
use liwe::graph::{Graph, GraphContext};
use liwe::model::node::NodePointer;
use liwe::model::Key;
use lsp_types::*;
use std::collections::HashMap;

pub struct C15;

fn depth(tier: Tier) -> usize {
    match tier {
        Tier::Quick => 4,
        Tier::Thorough => 5,
    }
}

/// all non-empty paths over {a, b} with at most `d` segments, shortest first
fn paths(d: usize) -> Vec<String> {
    let mut out: Vec<String> = vec![];
    let mut level: Vec<String> = vec![String::new()];
    for _ in 0..d {
        let mut next = vec![];
        for p in &level {
            for s in ["a", "b"] {
                next.push(if p.is_empty() { s.to_string() } else { format!("{}/{}", p, s) });
            }
        }
        out.extend(next.iter().cloned());
        level = next;
    }
    out
}

/// all urls of 1..=4 segments over {a, b, ., ..} crossed with the decorations
fn urls() -> Vec<String> {
    let mut out: Vec<String> = vec![];
    let mut level: Vec<String> = vec![String::new()];
    for _ in 0..4 {
        let mut next = vec![];
        for p in &level {
            for s in ["a", "b", ".", ".."] {
                next.push(if p.is_empty() { s.to_string() } else { format!("{}/{}", p, s) });
            }
        }
        for u in &next {
            let last_is_name = u.ends_with('a') || u.ends_with('b');
            out.push(u.clone());
            // "./" prefix: only where it is not already there
            if !u.starts_with("./") && u != "." {
                out.push(format!("./{}", u));
            }
            // the extension only decorates a file name, never `.` or `..`
            if last_is_name {
                out.push(format!("{}.md", u));
                if !u.starts_with("./") {
                    out.push(format!("./{}.md", u));
                }
                out.push(format!("{}.md.md", u));
            }
        }
        level = next;
    }
    out
}

fn segs(p: &str) -> Vec<&str> {
    if p.is_empty() {
        vec![]
    } else {
        p.split('/').collect()
    }
}

/// input-side features of a (key, dir) pair
fn pair_features(key: &str, dir: &str) -> Vec<String> {
    let mut f = vec![];
    let kd = oracle::dir_of(key);
    let (ks, ds, kds) = (segs(key), segs(dir), segs(&kd));
    let cp = kds.iter().zip(ds.iter()).take_while(|(x, y)| x == y).count();
    let ups = ds.len() - cp;
    if ds.len() >= ks.len() && ds[..ks.len()] == ks[..] {
        // the note's path (without `.md`) is also the linking directory or one of its ancestors
        f.push("key-path-is-dir-or-ancestor".into());
        f.push(if key == dir { "key-path-equals-dir-path".into() } else { "key-path-is-proper-ancestor-of-dir".into() });
    }
    if ups > 0 {
        f.push("link-goes-up".into());
    } else if kd == dir {
        f.push("key-in-dir".into());
    } else {
        f.push("key-below-dir".into());
    }
    if dir.is_empty() {
        f.push("dir=root".into());
    }
    f
}

/// input-side features of a (url, dir) pair
fn url_features(url: &str, dir: &str) -> Vec<String> {
    let mut f = vec![];
    let stem = url.strip_suffix(".md").unwrap_or(url);
    let ss: Vec<&str> = stem.split('/').collect();
    if ss.iter().any(|s| *s == "..") {
        f.push("url-has-dotdot".into());
    }
    if ss.iter().any(|s| *s == ".") {
        f.push("url-has-dot-segment".into());
    }
    // a `..` that cancels a name of the url itself (as opposed to leading `..`s)
    let mut seen_name = false;
    for s in &ss {
        if *s == ".." && seen_name {
            f.push("url-dotdot-after-name".into());
            break;
        }
        if *s != "." && *s != ".." {
            seen_name = true;
        }
    }
    if url.ends_with(".md.md") {
        f.push("url-ends-md-md".into());
    } else if url.ends_with(".md") {
        f.push("url-ends-md".into());
    }
    match ss.last() {
        Some(&".") | Some(&"..") => f.push("url-last-segment-is-dots".into()),
        _ => {}
    }
    if dir.is_empty() {
        f.push("dir=root".into());
    }
    // does the (reference) target name the linking directory itself or one of its ancestors?
    if let Some(t) = names(dir, url) {
        if !t.is_empty() {
            f.extend(pair_features(&t, dir).into_iter().filter(|x| x.starts_with("key-path")));
        }
    }
    f
}

fn field<'a>(case: &'a str, name: &str) -> &'a str {
    let pat = format!("|{}=", name);
    let i = case.find(&pat).unwrap_or_else(|| panic!("C15 case without {}: {}", name, case)) + pat.len();
    let rest = &case[i..];
    &rest[..rest.find('|').unwrap_or(rest.len())]
}

fn opt_field<'a>(case: &'a str, name: &str) -> &'a str {
    let pat = format!("|{}=", name);
    match case.find(&pat) {
        Some(i) => {
            let rest = &case[i + pat.len()..];
            &rest[..rest.find('|').unwrap_or(rest.len())]
        }
        None => "",
    }
}

fn note_in(dir: &str) -> String {
    if dir.is_empty() {
        "n".to_string()
    } else {
        format!("{}/n", dir)
    }
}

/// a key with exactly this relative path (no `.md` trimming by `Key::from`)
fn raw_key(k: &str) -> Key {
    Key { relative_path: std::sync::Arc::new(k.to_string()) }
}

fn block_ref_sources(g: &Graph, target: &str) -> Vec<String> {
    let mut v: Vec<String> = g.get_block_references_to(&raw_key(target)).iter().map(|id| g.node(*id).node_key().to_string()).collect();
    v.sort();
    v
}

/// the block references of a text as the reference reader sees them: (dest, resolved from dir)
fn ref_targets(text: &str, dir: &str) -> Vec<(String, Option<String>)> {
    oracle::scan_links(text)
        .into_iter()
        .filter(|l| l.alone_in_para && !oracle::is_external(&l.dest))
        .map(|l| (l.dest.clone(), names(dir, &l.dest)))
        .collect()
}

/// the note a url names for the reference reader: the own resolver, except that a url whose last
/// segment is not a name (empty url, `.md`, trailing `.` or `..`) names a directory, not a note
fn names(dir: &str, url: &str) -> Option<String> {
    let stem = url.strip_suffix(".md").unwrap_or(url);
    match stem.rsplit('/').next() {
        None | Some("") | Some(".") | Some("..") => None,
        _ => oracle::resolve(dir, url),
    }
}

fn fail(clause: &str, site: &str, feats: &[String], detail: String) -> Failure {
    Failure { clause: clause.into(), site: site.into(), features: feats.to_vec(), detail }
}

impl C15 {
    fn run_l1(&self, key: &str, dir: &str, feats: &[String], fs: &mut Vec<Failure>, tr: &mut u64) -> String {
        let k = raw_key(key);
        let r = guarded(|| {
            let u = k.to_rel_link_url(dir);
            let back = Key::from_rel_link_url(&u, dir).to_string();
            (u, back)
        });
        *tr += 2;
        match r {
            Err(p) => {
                fs.push(panic_failure(p, feats, "Key::to_rel_link_url / from_rel_link_url"));
                "panic".into()
            }
            Ok((u, back)) => {
                let reference = names(dir, &u);
                let written_ok = reference.as_deref() == Some(key);
                if !written_ok {
                    let site = written_site(&u);
                    fs.push(fail("L1", site, feats, format!("key {:?} written from directory {:?} is the url {:?}, which (reference resolver) names {:?}", key, dir, u, reference)));
                }
                if back != key {
                    let site = if written_ok { "read-back-of-right-url" } else { "read-back" };
                    fs.push(fail("L1", site, feats, format!("from_rel_link_url(to_rel_link_url({:?} from {:?}) = {:?}, {:?}) = {:?}, expected {:?}", key, dir, u, dir, back, key)));
                }
                format!("url:{}", shape(&u))
            }
        }
    }

    fn run_l2(&self, url: &str, dir: &str, feats: &[String], fs: &mut Vec<Failure>, tr: &mut u64) -> (String, bool) {
        if oracle::resolve(dir, url).is_none() {
            return ("above-root(dont-care)".into(), false);
        }
        let want = names(dir, url);
        let r = guarded(|| {
            let k = Key::from_rel_link_url(url, dir);
            let u2 = k.to_rel_link_url(dir);
            (k.to_string(), u2)
        });
        *tr += 2;
        match (r, want) {
            (Err(p), w) => {
                if w.is_some() {
                    fs.push(panic_failure(p, feats, "from_rel_link_url / to_rel_link_url"));
                }
                ("panic".into(), false)
            }
            (Ok(_), None) => ("names-a-directory(dont-care)".into(), false),
            (Ok((k, u2)), Some(t)) => {
                let again = names(dir, &u2);
                if again.as_deref() != Some(t.as_str()) {
                    let site = written_site(&u2);
                    fs.push(fail("L2", site, feats, format!("url {:?} in directory {:?} names {:?}; iwe reads it as key {:?} and re-writes it as {:?}, which names {:?}", url, dir, t, k, u2, again)));
                }
                (format!("rewritten:{}", shape(&u2)), true)
            }
        }
    }

    fn run_l3(&self, url: &str, dir: &str, feats: &[String], fs: &mut Vec<Failure>, tr: &mut u64) -> (String, bool) {
        let want = oracle::resolve(dir, url);
        let r = guarded(|| Key::from_rel_link_url(url, dir).to_string());
        *tr += 1;
        match (r, want) {
            (Err(p), w) => {
                if matches!(&w, Some(t) if !t.is_empty()) {
                    fs.push(panic_failure(p, feats, "from_rel_link_url"));
                }
                ("panic".into(), false)
            }
            (Ok(_), None) => ("above-root(dont-care)".into(), false),
            (Ok(_), Some(t)) if t.is_empty() => ("names-the-root(dont-care)".into(), false),
            (Ok(k), Some(t)) => {
                if k != t {
                    let site = if k.split('/').any(|s| s == "." || s == "..") { "key-not-normalised" } else { "other-key" };
                    fs.push(fail("L3", site, feats, format!("url {:?} in directory {:?}: from_rel_link_url gives key {:?}, the reference resolver {:?}", url, dir, k, t)));
                }
                ("agree-or-not".into(), true)
            }
        }
    }

    /// document level L2: a note in `dir` whose only block is `[t](url)`; formatting = import + export
    fn run_l2d(&self, url: &str, dir: &str, feats: &[String], fs: &mut Vec<Failure>, tr: &mut u64) -> (String, bool) {
        if oracle::resolve(dir, url).is_none() {
            return ("above-root(dont-care)".into(), false);
        }
        let want = match names(dir, url) {
            None => return ("names-a-directory(dont-care)".into(), false),
            Some(t) => t,
        };
        let n = note_in(dir);
        let text = format!("[t]({})\n", url);
        // the reference reader must see the input the way the case means it
        let seen = ref_targets(&text, dir);
        if seen.len() != 1 || seen[0].1.as_deref() != Some(want.as_str()) {
            return ("not-a-block-reference(skip)".into(), false);
        }
        // the target exists (with a title) unless it would be the linking note itself
        let mut lib: HashMap<String, String> = HashMap::new();
        lib.insert(n.clone(), text.clone());
        if want != n {
            lib.insert(want.clone(), "# target\n".into());
        }
        let r = guarded(|| {
            let g = Graph::import(&lib, opts(""));
            let out = g.export();
            (block_ref_sources(&g, &want), out.get(&n).cloned().unwrap_or_default())
        });
        *tr += 2;
        match r {
            Err(_) => ("panic-skip".into(), false),
            Ok((sources, out)) => {
                if !sources.contains(&n) {
                    fs.push(fail("L2d", "not-indexed-as-reference-to-target", feats, format!("note {:?} = {:?}: the reference names {:?}, but get_block_references_to({:?}) has sources {:?}", n, text, want, want, sources)));
                }
                let after = ref_targets(&out, dir);
                let ok = after.len() == 1 && after[0].1.as_deref() == Some(want.as_str());
                if !ok {
                    let site = if after.len() == 1 { written_site(&after[0].0) } else { "reference-lost" };
                    fs.push(fail("L2d", site, feats, format!("note {:?} = {:?} block-references {:?}; formatted it is {:?}, whose block references name {:?}", n, text, want, out, after)));
                }
                ("formatted".into(), true)
            }
        }
    }

    fn run_l4(&self, key: &str, dir: &str, ext: &str, host: &str, case_kind: &str, feats: &[String], fs: &mut Vec<Failure>, tr: &mut u64) -> String {
        let n = note_in(dir);
        let url = match guarded(|| raw_key(key).to_rel_link_url(dir)) {
            Ok(u) => u,
            Err(p) => {
                fs.push(panic_failure(p, feats, "to_rel_link_url"));
                return "panic".into();
            }
        };
        // where the reference stands in the note: the writer has one code path per container
        let link = match opt_field(case_kind, "kind") {
            "wiki" => format!("[[{}]]", url),
            "wikip" => format!("[[{}|t]]", url),
            _ => format!("[t]({}{})", url, ext),
        };
        let text = match host {
            "quote" => format!("# note\n\n> {}\n", link),
            "item" => format!("# note\n\n- x\n\n  {}\n", link),
            "quote-item" => format!("# note\n\n> - x\n>\n>   {}\n", link),
            "quote-quote" => format!("# note\n\n> > {}\n", link),
            "top" => format!("{}\n", link),
            _ => format!("# note\n\n{}\n", link),
        };
        let lib: HashMap<String, String> = lib_of(&[(key, "# target\n"), (&n, &text)]);
        let r = guarded(|| {
            let g1 = Graph::import(&lib, opts(ext));
            let s1 = block_ref_sources(&g1, key);
            let e1 = g1.export();
            let g2 = Graph::import(&e1, opts(ext));
            let s2 = block_ref_sources(&g2, key);
            let e2 = g2.export();
            (s1, e1, s2, e2)
        });
        *tr += 4;
        match r {
            Err(p) => {
                fs.push(panic_failure(p, feats, "import/export of a note that block-references the key with the url iwe writes"));
                "panic".into()
            }
            Ok((s1, e1, s2, e2)) => {
                let t1 = e1.get(&n).cloned().unwrap_or_default();
                let t2 = e2.get(&n).cloned().unwrap_or_default();
                if !s1.contains(&n) {
                    let site = if url.is_empty() { "import:written-url-empty" } else { "import" };
                    fs.push(fail("L4", site, feats, format!("note {:?} = {:?} (url written by to_rel_link_url({:?} from {:?})): after import get_block_references_to({:?}) has sources {:?}", n, text, key, dir, key, s1)));
                } else {
                    // the exported text, read by the reference reader, still names the key ...
                    let after = ref_targets(&t1, dir);
                    if !(after.len() == 1 && after[0].1.as_deref() == Some(key)) {
                        fs.push(fail("L4", &format!("export:{}", after.first().map(|a| written_site(&a.0)).unwrap_or("reference-lost")), feats, format!("note {:?} = {:?} references {:?}; exported it is {:?}, whose block references name {:?}", n, text, key, t1, after)));
                    }
                    // ... and so it does for iwe after re-import
                    if !s2.contains(&n) {
                        fs.push(fail("L4", "re-import", feats, format!("note {:?} exported as {:?}: after re-import get_block_references_to({:?}) has sources {:?}", n, t1, key, s2)));
                    }
                    if t1 != t2 {
                        fs.push(fail("L4", "export-not-a-fixpoint", feats, format!("note {:?}: first export {:?}, export of its re-import {:?}", n, t1, t2)));
                    }
                }
                format!("exported:{}", ref_targets(&t1, dir).first().map(|x| shape(&x.0)).unwrap_or("none".into()))
            }
        }
    }

    fn run_lc(&self, key: &str, dir: &str, feats: &[String], fs: &mut Vec<Failure>, tr: &mut u64) -> String {
        let n = note_in(dir);
        let lib: HashMap<String, String> = lib_of(&[(key, "# TARGET\n"), (&n, "# note\n")]);
        let r = guarded(|| {
            let s = server(&lib, "");
            match s.handle_completion(CompletionParams {
                text_document_position: TextDocumentPositionParams { text_document: TextDocumentIdentifier { uri: uri(&n) }, position: Position::new(0, 0) },
                context: None,
                work_done_progress_params: Default::default(),
                partial_result_params: Default::default(),
            }) {
                CompletionResponse::List(l) => l.items,
                CompletionResponse::Array(v) => v,
            }
        });
        *tr += 1;
        match r {
            Err(p) => {
                fs.push(panic_failure(p, feats, "completion"));
                "panic".into()
            }
            Ok(items) => {
                let texts: Vec<String> = items.iter().filter(|i| i.label.contains("TARGET")).filter_map(|i| i.insert_text.clone()).collect();
                if texts.len() != 1 {
                    fs.push(fail("LC", "no-item", feats, format!("completion in {:?}: {} items for the note titled TARGET: {:?}", n, texts.len(), texts)));
                    return "no-item".into();
                }
                let links = oracle::scan_links(&texts[0]);
                let dest = links.first().map(|l| l.dest.clone());
                let reference = dest.as_ref().and_then(|d| names(dir, d));
                if links.len() != 1 || reference.as_deref() != Some(key) {
                    let site = written_site(dest.as_deref().unwrap_or("?"));
                    fs.push(fail("LC", site, feats, format!("completion in {:?} for {:?} inserts {:?}: url {:?} names {:?}", n, key, texts[0], dest, reference)));
                }
                if let Some(d) = &dest {
                    let back = guarded(|| Key::from_rel_link_url(d, dir).to_string()).unwrap_or_else(|p| format!("panic {}", p.1));
                    if back != key {
                        fs.push(fail("LC", "read-back", feats, format!("completion in {:?} for {:?} inserts {:?}; from_rel_link_url({:?}, {:?}) = {:?}", n, key, texts[0], d, dir, back)));
                    }
                }
                format!("url:{}", dest.map(|d| shape(&d)).unwrap_or("none".into()))
            }
        }
    }

    fn run_lx(&self, dir: &str, feats: &[String], fs: &mut Vec<Failure>, tr: &mut u64) -> String {
        let n = note_in(dir);
        let lib: HashMap<String, String> = lib_of(&[(&n, "# note\n\n## part\n\ntext\n")]);
        let r = guarded(|| {
            let s = server(&lib, "");
            let acts = s.handle_code_action(&CodeActionParams {
                text_document: TextDocumentIdentifier { uri: uri(&n) },
                range: Range::new(Position::new(2, 0), Position::new(2, 0)),
                context: Default::default(),
                work_done_progress_params: Default::default(),
                partial_result_params: Default::default(),
            });
            let mut out: Option<WorkspaceEdit> = None;
            for a in acts {
                if let CodeActionOrCommand::CodeAction(ca) = a {
                    if ca.kind.as_ref().map(|k| k.as_str()) == Some("refactor.extract.section") {
                        out = s.handle_code_action_resolve(&ca).edit;
                    }
                }
            }
            out
        });
        *tr += 2;
        match r {
            Err(p) => {
                fs.push(panic_failure(p, feats, "extract section"));
                "panic".into()
            }
            Ok(None) => {
                fs.push(fail("LX", "no-action", feats, format!("no 'Extract section' edit on the sub-heading of {:?}", n)));
                "no-action".into()
            }
            Ok(Some(edit)) => {
                let mut created: Vec<String> = vec![];
                let mut new_text_of: HashMap<String, String> = HashMap::new();
                if let Some(DocumentChanges::Operations(ops)) = edit.document_changes {
                    for op in ops {
                        match op {
                            DocumentChangeOperation::Op(ResourceOp::Create(c)) => created.push(key_of_uri(&c.uri)),
                            DocumentChangeOperation::Edit(e) => {
                                if let Some(OneOf::Left(te)) = e.edits.first() {
                                    new_text_of.insert(key_of_uri(&e.text_document.uri), te.new_text.clone());
                                }
                            }
                            _ => {}
                        }
                    }
                }
                let host = new_text_of.get(&n).cloned().unwrap_or_default();
                let refs = ref_targets(&host, dir);
                if created.len() != 1 || refs.len() != 1 {
                    fs.push(fail("LX", "shape", feats, format!("extract in {:?}: created {:?}, host text {:?} with block references {:?}", n, created, host, refs)));
                    return "shape".into();
                }
                // (whether the new note lands in `dir` is not demanded by the property; it is part of the outcome only)
                let new_key = created[0].clone();
                if refs[0].1.as_deref() != Some(new_key.as_str()) {
                    fs.push(fail("LX", written_site(&refs[0].0), feats, format!("extract in {:?} creates {:?}, but the reference left behind is {:?}, which from {:?} names {:?}", n, new_key, refs[0].0, dir, refs[0].1)));
                }
                let back = guarded(|| Key::from_rel_link_url(&refs[0].0, dir).to_string()).unwrap_or_else(|p| format!("panic {}", p.1));
                if back != new_key {
                    fs.push(fail("LX", "read-back", feats, format!("extract in {:?} creates {:?}; reference url {:?} read by from_rel_link_url from {:?} = {:?}", n, new_key, refs[0].0, dir, back)));
                }
                format!("new-key-in-dir:{}", oracle::dir_of(&new_key) == dir)
            }
        }
    }
}

impl C15 {
    /// LI: D/n block-references K; K's text holds inline links (written correctly relative to K's
    /// directory) to the notes `m` and `b/m`. "Inline section" on the reference puts K's text into
    /// D/n: its links must then name, from D, the same two notes.
    fn run_li(&self, key: &str, dir: &str, feats: &[String], fs: &mut Vec<Failure>, tr: &mut u64) -> String {
        let n = note_in(dir);
        let kd = oracle::dir_of(key);
        let targets = ["m", "b/m"];
        if targets.contains(&key) || n == key {
            return "skip".into();
        }
        let u = crate::libspace::rel_url(dir, key);
        let host = format!("# host\n\n[t]({})\n", u);
        let inlined = format!("# target\n\nsee [one]({}) and [two]({}) here\n", crate::libspace::rel_url(&kd, "m"), crate::libspace::rel_url(&kd, "b/m"));
        let lib: HashMap<String, String> = lib_of(&[(&n, host.as_str()), (key, inlined.as_str()), ("m", "# em\n"), ("b/m", "# bem\n")]);
        let r = guarded(|| {
            let s = server(&lib, "");
            let acts = s.handle_code_action(&CodeActionParams {
                text_document: TextDocumentIdentifier { uri: uri(&n) },
                range: Range::new(Position::new(2, 0), Position::new(2, 0)),
                context: Default::default(),
                work_done_progress_params: Default::default(),
                partial_result_params: Default::default(),
            });
            let mut out: Option<WorkspaceEdit> = None;
            for a in acts {
                if let CodeActionOrCommand::CodeAction(ca) = a {
                    if ca.kind.as_ref().map(|k| k.as_str()) == Some("refactor.inline.reference.section") {
                        out = s.handle_code_action_resolve(&ca).edit;
                    }
                }
            }
            out
        });
        *tr += 2;
        match r {
            Err(p) => {
                fs.push(panic_failure(p, feats, "inline section"));
                "panic".into()
            }
            Ok(None) => "not-offered".into(),
            Ok(Some(edit)) => {
                let mut lib2: std::collections::BTreeMap<String, String> = lib.iter().map(|(k, v)| (k.clone(), v.clone())).collect();
                let _ = crate::edits::apply(&mut lib2, &edit);
                let after = lib2.get(&n).cloned().unwrap_or_default();
                let mut got: Vec<Option<String>> = oracle::scan_links(&after).into_iter().filter(|l| !oracle::is_external(&l.dest)).map(|l| names(dir, &l.dest)).collect();
                got.sort();
                let mut want: Vec<Option<String>> = targets.iter().map(|t| Some(t.to_string())).collect();
                want.sort();
                if got != want {
                    fs.push(fail("LI", "inlined-links-name-other-notes", feats, format!("{:?} inlined into {:?}: its links named {:?}; in the host they are now {:?} (host text {:?})", key, n, want, got, after)));
                }
                "inlined".into()
            }
        }
    }

    /// LR: K is renamed; the note D/n refers to it by a block reference and by an inline link
    /// (urls correctly relative to D). Every link re-written in D/n must name, from D, the key
    /// under which the note now exists.
    fn run_lr(&self, key: &str, dir: &str, new: &str, feats: &[String], fs: &mut Vec<Failure>, tr: &mut u64) -> String {
        let n = note_in(dir);
        let u = crate::libspace::rel_url(dir, key);
        let host = format!("# host\n\n[t]({})\n\nsee [t]({}) here\n", u, u);
        let lib: HashMap<String, String> = lib_of(&[(&n, host.as_str()), (key, "# target\n")]);
        let r = guarded(|| {
            let s = server(&lib, "");
            s.handle_rename(RenameParams {
                text_document_position: TextDocumentPositionParams { text_document: TextDocumentIdentifier { uri: uri(&n) }, position: Position::new(2, 1) },
                new_name: new.to_string(),
                work_done_progress_params: Default::default(),
            })
        });
        *tr += 1;
        match r {
            Err(p) => {
                fs.push(panic_failure(p, feats, "rename"));
                "panic".into()
            }
            Ok(Err(_)) => "refused".into(),
            Ok(Ok(None)) => {
                fs.push(fail("LR", "no-edit", feats, format!("no rename edit on the reference {:?} of {:?}", u, n)));
                "no-edit".into()
            }
            Ok(Ok(Some(edit))) => {
                let mut lib2: std::collections::BTreeMap<String, String> = lib.iter().map(|(k, v)| (k.clone(), v.clone())).collect();
                let applied = crate::edits::apply(&mut lib2, &edit);
                let created: Vec<String> = lib2.keys().filter(|k| !lib.contains_key(*k)).cloned().collect();
                if created.len() != 1 || !applied.problems.is_empty() || !lib2.contains_key(&n) {
                    fs.push(fail("LR", "shape", feats, format!("rename of {:?} to {:?} from {:?}: notes afterwards {:?}, problems {:?}", key, new, n, lib2.keys().collect::<Vec<_>>(), applied.problems)));
                    return "shape".into();
                }
                let new_key = created[0].clone();
                let after = &lib2[&n];
                let links: Vec<oracle::LinkOcc> = oracle::scan_links(after).into_iter().filter(|l| !oracle::is_external(&l.dest)).collect();
                if links.len() != 2 {
                    fs.push(fail("LR", "shape", feats, format!("rename of {:?} to {:?}: {:?} is now {:?} ({} links)", key, new, n, after, links.len())));
                    return "shape".into();
                }
                for l in &links {
                    let how = if l.alone_in_para { "block" } else { "inline" };
                    let t = names(dir, &l.dest);
                    if t.as_deref() != Some(new_key.as_str()) {
                        fs.push(fail("LR", &format!("{}:{}", how, written_site(&l.dest)), feats, format!("{:?} renamed to {:?}: the {} link of {:?} is re-written as {:?}, which from {:?} names {:?}; text {:?}", key, new_key, how, n, l.dest, dir, t, after)));
                    }
                }
                format!("moved-dir:{}", oracle::dir_of(&new_key) != oracle::dir_of(key))
            }
        }
    }
}

/// failure site for a url written by iwe that does not name the intended note
fn written_site(u: &str) -> &'static str {
    let stem = u.strip_suffix(".md").unwrap_or(u);
    match stem.rsplit('/').next() {
        None | Some("") => "written-url-has-no-name",
        Some(".") | Some("..") => "written-url-has-no-name",
        _ => "written-url-names-other-note",
    }
}

/// coarse shape of a written url for the outcome statistics: number of leading `..`, number of names
fn shape(u: &str) -> String {
    if u.is_empty() {
        return "empty".into();
    }
    let ss: Vec<&str> = u.split('/').collect();
    let ups = ss.iter().take_while(|s| **s == "..").count();
    format!("up{}+down{}", ups, ss.len() - ups)
}

impl Engine for C15 {
    fn id(&self) -> &'static str {
        "C15"
    }
    fn rule(&self) -> String {
        "path shapes, exhaustively: every (note key K, linking directory D) over segments {a,b} up to the depth bound (D includes the root) — equal, nested either way, siblings, disjoint — and every link url of <= 4 segments over {a,b,.,..} with/without `.md`, `./` prefix, `.md.md`, from every D. Reference reader (shares no code with iwe): oracle::resolve (split on '/', `.`/`..`, strip one `.md`); a url names a note only if its last segment is a name (an empty url, `.md`, a trailing `.` or `..` name a directory). Laws without expected literals: L1 the url K.to_rel_link_url(D) names K for the reference reader and from_rel_link_url reads it back as K; L2 re-writing a read link from the same directory (to_rel(from_rel(u,D),D)) names the same note as u; L3 from_rel_link_url(u,D) == oracle::resolve(D,u); L2d formatting (Graph::import/export) a note D/n that consists of the block reference `[t](u)` keeps its target (own link scanner + reader) and indexes it as a block reference to that target; L4 a note D/n that block-references K with the url iwe writes (refs_extension \"\" and \".md\"; the reference under a heading, at the top, in a quote, in a list item, in an item of a quoted list, in a nested quote; as `[t](url)`, `[[url]]` and `[[url|t]]`) is a reference to K after import (get_block_references_to), its export names K, the re-import still references K, second export == first; LC the completion item offered in D/n for K inserts a link that names K and reads back as K; LX 'Extract section' in D/n leaves a reference that names the created note; LI 'Inline section' of a reference to K in D/n: the inline links of K's text (to `m` and `b/m`) name the same notes from D afterwards; LR after an LSP rename of K (new names `z` and `b/z`) the block reference and the inline link of D/n are re-written so that, from D, they name the key under which the note now exists. Don't-care: urls that climb above the root (all laws), urls that name the root or a directory (L2, L2d; L3 only the root). non-trivial = the case is outside the don't-care zone and a url/key produced by the real code was judged".into()
    }
    fn bound(&self, tier: Tier) -> String {
        let d = depth(tier);
        let p = paths(d).len();
        format!("keys: all {} paths over {{a,b}} of depth <= {}; directories: the same plus the root ({}); every pair ({}); urls: all {} decorated urls of <= 4 segments over {{a,b,.,..}}, each from every directory", p, d, p + 1, p * (p + 1), urls().len())
    }
    fn assumptions(&self) -> Vec<String> {
        vec![
            "two segment names suffice: the path arithmetic under test compares segments only for equality and against `.`/`..`".into(),
            "urls that climb above the library root, and urls that name the root directory itself (empty key), are don't-care; input urls whose last segment is `.`/`..` name a directory, not a note: L3 still compares them, L2/L2d do not judge them".into(),
            "a url *written* by iwe must end in the note's name: the empty url and a bare `..` are judged as not naming the note even though iwe's own reader maps them back".into(),
            "inline links are re-written by iwe only on rename (LR); otherwise their url is kept verbatim, and how they are resolved is C05/C06's subject".into(),
            "the `.md` decorations are only applied to urls whose last segment is a name".into(),
            "names that need percent-encoding are C14's subject, not C15's".into(),
        ]
    }
    fn enumerate(&self, tier: Tier, emit: &mut dyn FnMut(&str)) {
        let keys = paths(depth(tier));
        let mut dirs = vec![String::new()];
        dirs.extend(keys.iter().cloned());
        for d in &dirs {
            emit(&format!("LX|dir={}", d));
        }
        for k in &keys {
            for d in &dirs {
                emit(&format!("L1|key={}|dir={}", k, d));
            }
        }
        for k in &keys {
            for d in &dirs {
                // new name: plain (stays beside the old note or lands at the root, whichever way the
                // server reads it) and in a directory of its own
                emit(&format!("LI|key={}|dir={}", k, d));
                emit(&format!("LR|key={}|dir={}|new=z", k, d));
                emit(&format!("LR|key={}|dir={}|new=b/z", k, d));
            }
        }
        for k in &keys {
            for d in &dirs {
                emit(&format!("L4|key={}|dir={}|ext=", k, d));
                emit(&format!("L4|key={}|dir={}|ext=.md", k, d));
                for h in ["quote", "item", "quote-item", "quote-quote", "top"] {
                    emit(&format!("L4|key={}|dir={}|ext=|host={}", k, d, h));
                }
                // the reference written as a wiki-link
                for kind in ["wiki", "wikip"] {
                    for h in ["", "quote", "item"] {
                        emit(&format!("L4|key={}|dir={}|ext=|host={}|kind={}", k, d, h, kind));
                    }
                }
                emit(&format!("LC|key={}|dir={}", k, d));
            }
        }
        // sibling directories whose names are string prefixes of one another (a / ab, journal /
        // journal-2024): path arithmetic must work on segments, not on text
        let prefixed: Vec<String> = ["a", "ab", "a/a", "a/ab", "ab/a", "ab/ab", "journal/x", "journal-2024/x", "journal/2024/x", "v1.2", "a/v1.2", "v1.2/a", "2024.01.15"].iter().map(|s| s.to_string()).collect();
        let mut pdirs = vec![String::new(), "journal".to_string(), "journal-2024".to_string()];
        pdirs.extend(prefixed.iter().cloned());
        for k in &prefixed {
            for d in &pdirs {
                emit(&format!("L1|key={}|dir={}", k, d));
                emit(&format!("L4|key={}|dir={}|ext=", k, d));
                emit(&format!("LC|key={}|dir={}", k, d));
            }
        }
        let us = urls();
        for law in ["L3", "L2", "L2d"] {
            for u in &us {
                for d in &dirs {
                    emit(&format!("{}|url={}|dir={}", law, u, d));
                }
            }
        }
    }
    fn features(&self, case: &str) -> Vec<String> {
        let law = case.split('|').next().unwrap_or("");
        match law {
            "L1" | "L4" | "LC" | "LR" | "LI" => {
                let mut f = pair_features(field(case, "key"), field(case, "dir"));
                if law == "L4" && !field(case, "ext").is_empty() {
                    f.push("refs-extension".into());
                }
                f
            }
            "LX" => {
                if field(case, "dir").is_empty() {
                    vec!["dir=root".into()]
                } else {
                    vec![]
                }
            }
            _ => url_features(field(case, "url"), field(case, "dir")),
        }
    }
    fn run(&self, case: &str, _ctx: &Ctx) -> CaseResult {
        let law = case.split('|').next().unwrap_or("").to_string();
        let feats = self.features(case);
        let mut fs: Vec<Failure> = vec![];
        let mut tr = 0u64;
        let dir = field(case, "dir");
        let (outcome, nontrivial) = match law.as_str() {
            "L1" => (self.run_l1(field(case, "key"), dir, &feats, &mut fs, &mut tr), true),
            "L4" => (self.run_l4(field(case, "key"), dir, field(case, "ext"), opt_field(case, "host"), case, &feats, &mut fs, &mut tr), true),
            "LC" => (self.run_lc(field(case, "key"), dir, &feats, &mut fs, &mut tr), true),
            "LX" => (self.run_lx(dir, &feats, &mut fs, &mut tr), true),
            "LI" => (self.run_li(field(case, "key"), dir, &feats, &mut fs, &mut tr), true),
            "LR" => (self.run_lr(field(case, "key"), dir, field(case, "new"), &feats, &mut fs, &mut tr), true),
            "L2" => self.run_l2(field(case, "url"), dir, &feats, &mut fs, &mut tr),
            "L3" => self.run_l3(field(case, "url"), dir, &feats, &mut fs, &mut tr),
            "L2d" => self.run_l2d(field(case, "url"), dir, &feats, &mut fs, &mut tr),
            other => panic!("C15: unknown law {:?} in case {:?}", other, case),
        };
        let outcome = if fs.is_empty() { format!("{}:{}", law, outcome) } else { format!("{}:FAIL:{}", law, fs[0].site) };
        CaseResult { transitions: tr, nontrivial, outcome, failures: fs, ..Default::default() }
    }
}
