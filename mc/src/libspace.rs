//! libspace: enumerator of small libraries built from a link-placement x kind x target alphabet
//! (DESIGN §3.5), shared by C05, C06, C08, C09, C13.
//!
//! A case string is `owner=<key>|title=<plain|link|none>|others=<titled|untitled|back>|ext=<|.md>|blocks=<p>:<k>:<u>[;<p>:<k>:<u>]`
//! where p = placement, k = link kind, u = symbolic url form. Everything is derived from names, so
//! replay files stay valid when the alphabet is extended.

use crate::oracle::dir_of;
use std::collections::BTreeMap;

/// `dx` has `d` as a string prefix but is a different directory
/// `http-6`: a note whose name starts like a url scheme (it is a note: there is no `://`)
pub const KEYS: &[&str] = &["1", "2", "d/3", "d/4", "dx/5", "http-6", "d/e/7"];

pub const PLACEMENTS: &[&str] = &[
    "block-ref", "block-ref-h2", "inline-para", "heading", "item", "nested-item", "emphasis", "quote", "quote-ref", "after-table",
    "inline-after-table", "table-cell", "item-2nd-para", "two-same", "strong-in-emphasis", "emphasis-in-strong", "table-head",
];

pub const KINDS: &[&str] = &["reg", "empty", "wiki", "wikip", "image", "same"];

pub fn place(p: &str, l: &str) -> String {
    match p {
        "block-ref" => format!("{}\n", l),
        "block-ref-h2" => format!("## sub\n\n{}\n", l),
        "inline-para" => format!("see {} here\n", l),
        "heading" => format!("## h {}\n", l),
        "item" => format!("- a {}\n", l),
        "nested-item" => format!("- a\n  - b {}\n", l),
        "emphasis" => format!("x *{}* y\n", l),
        "strong-in-emphasis" => format!("*see **{}** here*\n", l),
        "emphasis-in-strong" => format!("**see *{}* here**\n", l),
        "quote" => format!("> q {}\n", l),
        "quote-ref" => format!("> {}\n", l),
        "after-table" => format!("| a |\n|---|\n| b |\n\n{}\n", l),
        "inline-after-table" => format!("| a |\n|---|\n| b |\n\nx {}\n", l),
        "table-cell" => format!("| a |\n|---|\n| {} |\n", l),
        "table-head" => format!("| {} | h |\n|---|---|\n| b | c |\n", l),
        "item-2nd-para" => format!("- a\n\n  {}\n\n  tail\n", l),
        "two-same" => format!("{}\n\n{}\n\nx {} y {}\n", l, l, l, l),
        _ => panic!("placement {}", p),
    }
}

pub fn link(kind: &str, url: &str) -> String {
    match kind {
        "reg" => format!("[t]({})", url),
        "empty" => format!("[]({})", url),
        "wiki" => format!("[[{}]]", url),
        "wikip" => format!("[[{}|t]]", url),
        "image" => format!("![t]({})", url),
        // the link text is the url itself
        "same" => format!("[{}]({})", url, url),
        "auto" => format!("<{}>", url),
        _ => panic!("kind {}", kind),
    }
}

/// correctly-relative url for `target` written from directory `dir`
pub fn rel_url(dir: &str, target: &str) -> String {
    let d: Vec<&str> = if dir.is_empty() { vec![] } else { dir.split('/').collect() };
    let t: Vec<&str> = target.split('/').collect();
    let mut i = 0;
    while i < d.len() && i + 1 < t.len() && d[i] == t[i] {
        i += 1;
    }
    let mut out: Vec<String> = vec![];
    for _ in i..d.len() {
        out.push("..".into());
    }
    for s in &t[i..] {
        out.push(s.to_string());
    }
    out.join("/")
}

/// symbolic url forms available from the owner's directory
pub fn url_forms(owner: &str) -> Vec<String> {
    let d = dir_of(owner);
    let mut v = vec![];
    for t in KEYS {
        v.push(format!("to:{}", t));
        v.push(format!("to:{}+md", t));
        v.push(format!("to:{}+dot", t));
    }
    v.push("missing".into());
    v.push("http".into());
    v.push("HTTPS".into());
    v.push("mailto".into());
    if !d.is_empty() {
        v.push("bare:1".into()); // a root note's bare name written from a sub-directory (resolves to d/1 = missing)
        v.push("bare:4".into()); // resolves to d/4
        v.push("detour".into()); // ../d/4
    } else {
        v.push("detour".into()); // d/../2
    }
    v
}

pub fn url_of(owner: &str, form: &str) -> String {
    let d = dir_of(owner);
    if let Some(rest) = form.strip_prefix("to:") {
        let (t, variant) = match rest.split_once('+') {
            Some((t, v)) => (t, v),
            None => (rest, ""),
        };
        let rel = rel_url(&d, t);
        return match variant {
            "md" => format!("{}.md", rel),
            "dot" => format!("./{}", rel),
            _ => rel,
        };
    }
    match form {
        "missing" => "nope".into(),
        "http" => "http://x.y/z".into(),
        "HTTPS" => "HTTPS://x.y".into(),
        "mailto" => "mailto:a@b.c".into(),
        "bare:1" => "1".into(),
        "bare:4" => "4".into(),
        "detour" => {
            if d.is_empty() {
                "d/../2".into()
            } else {
                format!("../{}/4", d)
            }
        }
        _ => panic!("url form {}", form),
    }
}

#[derive(Clone, Debug)]
pub struct LibCase {
    pub owner: String,
    pub title: String,
    pub others: String,
    pub ext: String,
    /// (placement, kind, url form)
    pub blocks: Vec<(String, String, String)>,
}

impl LibCase {
    pub fn to_string(&self) -> String {
        format!(
            "owner={}|title={}|others={}|ext={}|blocks={}",
            self.owner,
            self.title,
            self.others,
            self.ext,
            self.blocks.iter().map(|(p, k, u)| format!("{}:{}:{}", p, k, u)).collect::<Vec<_>>().join(";")
        )
    }
    pub fn parse(s: &str) -> LibCase {
        let mut m: BTreeMap<&str, &str> = BTreeMap::new();
        for part in s.split('|') {
            if let Some((k, v)) = part.split_once('=') {
                m.insert(k, v);
            }
        }
        LibCase {
            owner: m.get("owner").unwrap_or(&"1").to_string(),
            title: m.get("title").unwrap_or(&"plain").to_string(),
            others: m.get("others").unwrap_or(&"titled").to_string(),
            ext: m.get("ext").unwrap_or(&"").to_string(),
            blocks: m
                .get("blocks")
                .unwrap_or(&"")
                .split(';')
                .filter(|b| !b.is_empty())
                .map(|b| {
                    // placement:kind:urlform (url forms contain ':' themselves)
                    let mut it = b.splitn(3, ':');
                    (it.next().unwrap().to_string(), it.next().unwrap().to_string(), it.next().unwrap().to_string())
                })
                .collect(),
        }
    }
    pub fn build(&self) -> BTreeMap<String, String> {
        let mut lib: BTreeMap<String, String> = BTreeMap::new();
        for k in KEYS {
            let name = k.replace('/', " ");
            let text = match self.others.as_str() {
                "titled" => format!("# note {}\n", name),
                "untitled" => format!("plain {}\n", name),
                // the title is the note's own name: a refreshed link text then equals the url
                "named" => format!("# {}\n", k.rsplit('/').next().unwrap()),
                // the first block is not a heading: the note has no title although a heading follows
                "late-title" => format!("remark {}\n\n# late {}\n", name, name),
                "back" => format!("# note {}\n\n[o]({})\n\nand [o]({}) inline\n", name, rel_url(&dir_of(k), &self.owner), rel_url(&dir_of(k), &self.owner)),
                "linked-title" => format!("# note {} [x]({})\n", name, rel_url(&dir_of(k), "2")),
                _ => panic!("others {}", self.others),
            };
            lib.insert(k.to_string(), text);
        }
        let mut t = String::new();
        match self.title.as_str() {
            "plain" => t.push_str("# owner\n\n"),
            "link" => t.push_str(&format!("# owner [x]({})\n\n", rel_url(&dir_of(&self.owner), "2"))),
            "none" => {}
            _ => panic!("title {}", self.title),
        }
        let parts: Vec<String> = self.blocks.iter().map(|(p, k, u)| place(p, &link(k, &url_of(&self.owner, u)))).collect();
        t.push_str(&parts.join("\n"));
        lib.insert(self.owner.clone(), t);
        lib
    }
    pub fn features(&self) -> Vec<String> {
        let mut f = vec![];
        let d = dir_of(&self.owner);
        if !d.is_empty() {
            f.push("owner-in-subdir".to_string());
        }
        for (p, k, u) in &self.blocks {
            f.push(format!("placement={}", p));
            f.push(format!("kind={}", k));
            let url = url_of(&self.owner, u);
            if url.contains("..") {
                f.push("url-has-dotdot".into());
            }
            if url.starts_with("./") {
                f.push("url-has-dot".into());
            }
            if url.ends_with(".md") {
                f.push("url-has-md-ext".into());
            }
            if u.starts_with("bare") {
                f.push("bare-name-from-subdir".into());
            }
            let inline = !matches!(p.as_str(), "block-ref" | "block-ref-h2" | "after-table" | "quote-ref");
            if inline && !d.is_empty() {
                f.push("inline-link-from-subdir".into());
            }
            if inline && url.contains('/') {
                f.push("inline-link-with-path".into());
            }
            if p == "table-cell" || p == "table-head" {
                f.push("link-in-table-cell".into());
            }
            if p.starts_with("quote") {
                f.push("link-in-quote".into());
            }
            if p == "after-table" || p == "inline-after-table" {
                f.push("link-after-table".into());
            }
        }
        f.push(format!("title={}", self.title));
        f.push(format!("others={}", self.others));
        // library-level features from the harness's own scan of every note
        for (k, t) in self.build() {
            let d = dir_of(&k);
            for l in crate::oracle::scan_links(&t) {
                if crate::oracle::is_external(&l.dest) {
                    continue;
                }
                let block = l.alone_in_para && !l.in_table;
                if !block {
                    // an inline link whose key is only right after resolving against the note's directory
                    let plain = crate::oracle::strip_md(&l.dest);
                    if !d.is_empty() || plain.contains('/') || plain.starts_with('.') {
                        f.push("inline-link-needs-dir-resolution".into());
                    }
                }
                if l.in_table {
                    f.push("link-in-table-cell".into());
                }
                if l.in_quote {
                    f.push("link-in-quote".into());
                }
                if l.in_heading {
                    f.push("link-in-heading".into());
                }
                if crate::oracle::resolve(&d, &l.dest).is_none() {
                    f.push("link-above-root".into());
                }
            }
        }
        f.sort();
        f.dedup();
        f
    }
}

/// the library space: `deep` adds second link blocks and more owner/others variety
pub fn enumerate(deep: bool, exts: &[&str], emit: &mut dyn FnMut(&LibCase)) {
    enumerate_level(if deep { 1 } else { 0 }, exts, emit)
}

/// level 0 = shallow, 1 = deep (the quick tiers), 2 = deeper: every note as owner, two link blocks
/// over all placements x all kinds x {reg, wiki}
pub fn enumerate_level(level: u8, exts: &[&str], emit: &mut dyn FnMut(&LibCase)) {
    let deep = level >= 1;
    let owners: Vec<&str> = if level >= 2 { KEYS.to_vec() } else if deep { vec!["1", "d/3", "2"] } else { vec!["1", "d/3"] };
    for ext in exts {
        for owner in &owners {
            let urls = url_forms(owner);
            // one link block, everything varied
            for p in PLACEMENTS {
                for k in KINDS {
                    for u in &urls {
                        for others in ["titled", "untitled", "named", "late-title"] {
                            for title in ["plain", "none"] {
                                if (!deep && title == "none" && others == "untitled") || ((others == "named" || others == "late-title") && title == "none") {
                                    continue;
                                }
                                emit(&LibCase { owner: owner.to_string(), title: title.into(), others: others.into(), ext: ext.to_string(), blocks: vec![(p.to_string(), k.to_string(), u.clone())] });
                            }
                        }
                    }
                }
            }
            // links back and titles containing links
            for p in ["block-ref", "inline-para", "item"] {
                for u in &urls {
                    for (title, others) in [("plain", "back"), ("link", "titled"), ("plain", "linked-title"), ("link", "back")] {
                        emit(&LibCase { owner: owner.to_string(), title: title.into(), others: others.into(), ext: ext.to_string(), blocks: vec![(p.to_string(), "reg".into(), u.clone())] });
                    }
                }
            }
            // two link blocks over a reduced alphabet
            let ps: Vec<&str> = if level >= 2 { PLACEMENTS.to_vec() } else if deep { vec!["block-ref", "inline-para", "item", "quote", "after-table", "heading"] } else { vec!["block-ref", "inline-para"] };
            let ks: Vec<&str> = if deep { vec!["reg", "wiki"] } else { vec!["reg"] };
            let ks1: Vec<&str> = if level >= 2 { KINDS.to_vec() } else { ks.clone() };
            for p1 in &ps {
                for p2 in &ps {
                    for k1 in &ks1 {
                        for k2 in &ks {
                            for u1 in &urls {
                                for u2 in &urls {
                                    if !deep && (u1.contains('+') || u2.contains('+')) {
                                        continue;
                                    }
                                    emit(&LibCase {
                                        owner: owner.to_string(),
                                        title: "plain".into(),
                                        others: "titled".into(),
                                        ext: ext.to_string(),
                                        blocks: vec![(p1.to_string(), k1.to_string(), u1.clone()), (p2.to_string(), k2.to_string(), u2.clone())],
                                    });
                                }
                            }
                        }
                    }
                }
            }
        }
    }
}
