//! Drivers: the real code under test, reached through its public API only.

use crate::core::guarded;
use iwes::router::server::Server;
use iwes::router::{LspClient, ServerConfig};
use liwe::graph::Graph;
use liwe::markdown::MarkdownReader;
use liwe::model::config::{Configuration, MarkdownOptions};
use lsp_types::*;
use std::collections::HashMap;

pub type PanicInfo = (String, String);

pub const DOC: &str = "zz";
pub const BASE: &str = "/basepath";

pub fn opts(ext: &str) -> MarkdownOptions {
    MarkdownOptions { refs_extension: ext.to_string() }
}

pub fn config(ext: &str) -> Configuration {
    let mut c = Configuration::default();
    c.markdown = opts(ext);
    c
}

pub fn uri(key: &str) -> Url {
    Url::parse(&format!("file://{}/{}.md", BASE, key)).unwrap()
}

pub fn key_of_uri(u: &Url) -> String {
    let s = u.to_string();
    let p = s.strip_prefix(&format!("file://{}/", BASE)).unwrap_or(&s);
    p.strip_suffix(".md").unwrap_or(p).to_string()
}

pub fn lib_of(pairs: &[(&str, &str)]) -> HashMap<String, String> {
    pairs.iter().map(|(k, v)| (k.to_string(), v.to_string())).collect()
}

/// the companion notes present in every single-document case
pub fn doc_lib(text: &str) -> HashMap<String, String> {
    lib_of(&[(DOC, text), ("2", "# two\n")])
}

/// P1: Graph::from_markdown + Graph::to_markdown
pub fn p1(key: &str, text: &str, ext: &str) -> Result<String, PanicInfo> {
    guarded(|| {
        let mut g = Graph::new_with_options(opts(ext));
        // the same companion note as in `doc_lib`, so that every route sees the same library
        if key == DOC {
            g.from_markdown("2".into(), "# two\n", MarkdownReader::new());
        }
        g.from_markdown(key.into(), text, MarkdownReader::new());
        g.to_markdown(&key.into())
    })
}

/// P2: Graph::import + Graph::export of a whole library
pub fn p2(lib: &HashMap<String, String>, ext: &str) -> Result<HashMap<String, String>, PanicInfo> {
    guarded(|| Graph::import(lib, opts(ext)).export())
}

/// P3: import the library without the note, then update_key, then to_markdown
pub fn p3(lib: &HashMap<String, String>, key: &str, ext: &str) -> Result<String, PanicInfo> {
    guarded(|| {
        let mut rest = lib.clone();
        let text = rest.remove(key).unwrap_or_default();
        rest.insert(key.to_string(), String::new());
        let mut g = Graph::import(&rest, opts(ext));
        g.update_key(key.into(), &text);
        g.to_markdown(&key.into())
    })
}

pub fn server(lib: &HashMap<String, String>, ext: &str) -> Server {
    Server::new(ServerConfig {
        base_path: BASE.into(),
        state: lib.clone(),
        sequential_ids: Some(true),
        configuration: config(ext),
        lsp_client: LspClient::Unknown,
    })
}

/// like `server`, but with production key generation (random 8-character keys) instead of the
/// test-suite mode in which every new key of one action is "number of notes + 1"
pub fn server_prod(lib: &HashMap<String, String>, ext: &str) -> Server {
    Server::new(ServerConfig {
        base_path: BASE.into(),
        state: lib.clone(),
        sequential_ids: Some(false),
        configuration: config(ext),
        lsp_client: LspClient::Unknown,
    })
}

pub fn fmt_params(key: &str) -> DocumentFormattingParams {
    DocumentFormattingParams {
        text_document: TextDocumentIdentifier { uri: uri(key) },
        options: Default::default(),
        work_done_progress_params: Default::default(),
    }
}

/// P4: the LSP formatting request on a Server built from the library
pub fn p4(lib: &HashMap<String, String>, key: &str, ext: &str) -> Result<String, PanicInfo> {
    guarded(|| {
        let s = server(lib, ext);
        s.handle_document_formatting(fmt_params(key))[0].new_text.clone()
    })
}

pub fn format_on(s: &Server, key: &str) -> String {
    s.handle_document_formatting(fmt_params(key))[0].new_text.clone()
}
