//! Shared machinery: engine trait, sharded subprocess runner, panic capture,
//! known-finding attribution, replay verification, evidence.
//!
//! An *engine* enumerates a finite, explicitly bounded space of cases (documents, libraries,
//! histories, schedules, fault points) in a fixed order and evaluates its oracle on the real
//! code for one case at a time. The runner shards the enumeration over worker subprocesses
//! (so that aborts / stack overflows are attributable), de-duplicates cases, attributes
//! failures to the committed known findings, re-executes every unattributed failure
//! before reporting it, and writes the evidence file.

use serde::{Deserialize, Serialize};
use serde_json::{json, Value};
use std::cell::RefCell;
use std::collections::{BTreeMap, HashSet};
use std::io::{BufRead, BufReader, Write};
use std::process::{Command, Stdio};
use std::time::Instant;

#[derive(Clone, Copy, PartialEq, Eq, Debug)]
pub enum Tier {
    Quick,
    Thorough,
}
impl Tier {
    pub fn name(&self) -> &'static str {
        match self {
            Tier::Quick => "quick",
            Tier::Thorough => "thorough",
        }
    }
    pub fn parse(s: &str) -> Option<Tier> {
        match s {
            "quick" => Some(Tier::Quick),
            "thorough" => Some(Tier::Thorough),
            _ => None,
        }
    }
}

#[derive(Serialize, Deserialize, Clone, Debug, PartialEq)]
pub struct Failure {
    /// oracle clause that failed ("panic", "content", "fixpoint", ...)
    pub clause: String,
    /// call site for panics (file:line), sub-signature otherwise
    pub site: String,
    /// input-side trigger features of the case (computed by the harness from the input only)
    pub features: Vec<String>,
    pub detail: String,
}

#[derive(Default)]
pub struct CaseResult {
    pub transitions: u64,
    pub nontrivial: bool,
    pub outcome: String,
    pub failures: Vec<Failure>,
    /// engine-specific additive counters (schedules, syscalls, ...), summed into the evidence
    pub counters: BTreeMap<String, u64>,
}

pub struct Ctx {
    /// ids of open known findings whose witness still fails in this run
    pub active: HashSet<String>,
    pub tier: Tier,
}

pub trait Engine: Sync {
    fn id(&self) -> &'static str;
    fn level(&self) -> &'static str {
        "model_checking"
    }
    /// how cases are enumerated and what makes one non-trivial
    fn rule(&self) -> String;
    fn bound(&self, tier: Tier) -> String;
    fn assumptions(&self) -> Vec<String>;
    /// enumerate the bounded space in a fixed order; a case is an engine-specific string
    fn enumerate(&self, tier: Tier, emit: &mut dyn FnMut(&str));
    fn run(&self, case: &str, ctx: &Ctx) -> CaseResult;
    fn shards(&self, _tier: Tier) -> usize {
        16
    }
    /// features of a case, used when a worker died on it (abort) and could not report itself
    fn features(&self, _case: &str) -> Vec<String> {
        vec![]
    }
    /// whether the enumerated space was covered completely (false if a cap applies)
    fn exhaustive(&self, _tier: Tier) -> bool {
        true
    }
    /// per-case wall horizon in seconds (None = no horizon); exceeded => failure clause "hang"
    fn horizon_s(&self) -> Option<u64> {
        None
    }
    /// extra coverage keys for the evidence file
    fn extra_coverage(&self, _tier: Tier) -> Value {
        json!({})
    }
    /// true for a property that forbids schedule- or seed-dependent results (C16): a failure seen in
    /// the sharded run is then reported even if the replay in a quiet process does not show it
    fn schedule_dependent_failures_count(&self) -> bool {
        false
    }
}

// ------------------------------------------------------------------ panic capture

thread_local! {
    static LAST_PANIC: RefCell<Option<(String, String)>> = RefCell::new(None);
}

pub fn install_panic_hook() {
    std::panic::set_hook(Box::new(|info| {
        let loc = info
            .location()
            .map(|l| format!("{}:{}", short_path(l.file()), l.line()))
            .unwrap_or_default();
        let msg = if let Some(s) = info.payload().downcast_ref::<&str>() {
            s.to_string()
        } else if let Some(s) = info.payload().downcast_ref::<String>() {
            s.clone()
        } else {
            "?".to_string()
        };
        if std::env::var_os("MC_DEBUG").is_some() {
            eprintln!("panic at {}: {}", loc, msg);
        }
        LAST_PANIC.with(|p| *p.borrow_mut() = Some((loc.clone(), msg.clone())));
        let mut g = GLOBAL_PANICS.lock().unwrap();
        if g.len() > 10_000 {
            g.clear();
        }
        g.push((loc, msg));
    }));
}

pub static GLOBAL_PANICS: std::sync::Mutex<Vec<(String, String)>> = std::sync::Mutex::new(Vec::new());

fn short_path(p: &str) -> String {
    match p.find("crates/") {
        Some(i) => p[i..].to_string(),
        None => match p.find("/src/") {
            Some(i) => {
                // registry crate: keep crate dir name
                let head = &p[..i];
                let name = head.rsplit('/').next().unwrap_or("");
                format!("{}{}", name, &p[i..])
            }
            None => p.to_string(),
        },
    }
}

pub fn take_global_panics() -> Vec<(String, String)> {
    std::mem::take(&mut *GLOBAL_PANICS.lock().unwrap())
}

/// Run `f`, catching a panic; returns Err((site, message)).
pub fn guarded<T>(f: impl FnOnce() -> T) -> Result<T, (String, String)> {
    LAST_PANIC.with(|p| *p.borrow_mut() = None);
    let mark = GLOBAL_PANICS.lock().unwrap().len();
    match std::panic::catch_unwind(std::panic::AssertUnwindSafe(f)) {
        Ok(v) => Ok(v),
        Err(_) => Err(LAST_PANIC.with(|p| p.borrow_mut().take()).unwrap_or_else(|| {
            // the panic happened on another thread (rayon worker) and was propagated here
            let g = GLOBAL_PANICS.lock().unwrap();
            g.get(mark).cloned().or_else(|| g.last().cloned()).unwrap_or(("?".into(), "?".into()))
        })),
    }
}

/// Run `f` on a fresh thread with the given stack size (as production does for request
/// workers: 2 MiB default; main thread: 8 MiB), catching panics.
pub fn guarded_on_stack<T: Send + 'static>(
    stack: usize,
    f: impl FnOnce() -> T + Send + 'static,
) -> Result<T, (String, String)> {
    let h = std::thread::Builder::new()
        .stack_size(stack)
        .spawn(move || guarded(f))
        .expect("spawn");
    match h.join() {
        Ok(r) => r,
        Err(_) => Err(("?".into(), "thread died".into())),
    }
}

/// failure site of a panic: file (without line number, which shifts under unrelated edits)
/// plus the start of the message
pub fn panic_site(site_msg: &(String, String)) -> String {
    let file = site_msg.0.rsplit_once(':').map(|x| x.0).unwrap_or(&site_msg.0);
    let msg: String = site_msg.1.chars().take(40).collect();
    format!("{}|{}", file, msg)
}

pub fn panic_failure(site_msg: (String, String), features: &[String], what: &str) -> Failure {
    Failure {
        clause: "panic".into(),
        site: panic_site(&site_msg),
        features: features.to_vec(),
        detail: format!("{}: panic at {}: {}", what, site_msg.0, trunc(&site_msg.1, 200)),
    }
}

pub fn trunc(s: &str, n: usize) -> String {
    if s.chars().count() <= n {
        s.to_string()
    } else {
        let t: String = s.chars().take(n).collect();
        format!("{}…", t)
    }
}

// ------------------------------------------------------------------ known findings

#[derive(Serialize, Deserialize, Clone, Debug)]
pub struct Finding {
    pub id: String,
    pub property: String,
    /// "open" or "fixed: <commit>"
    pub status: String,
    /// all of these features must be present in the failing case (input-side predicate)
    pub trigger: Vec<String>,
    /// oracle clause
    pub clause: String,
    /// prefix of the failure site ("" = any)
    #[serde(default)]
    pub site: String,
    /// minimal concrete case (engine case string)
    pub witness: String,
    pub text: String,
    /// "thorough": the finding's cases exist only in the thorough space; the quick tier neither
    /// re-runs its witness nor lets it suppress anything
    #[serde(default)]
    pub tier: Option<String>,
}

impl Finding {
    pub fn is_open(&self) -> bool {
        self.status == "open"
    }
    pub fn matches(&self, f: &Failure) -> bool {
        // clause "*" = every clause of the property's oracle (only for findings whose trigger is
        // narrow and whose damage shows up under several clauses)
        (self.clause == f.clause || self.clause == "*")
            && f.site.starts_with(&self.site)
            && self.trigger.iter().all(|t| f.features.iter().any(|x| x == t))
    }
}

pub fn load_findings(property: &str) -> Vec<Finding> {
    let path = "/verif/known_findings.json";
    let text = match std::fs::read_to_string(path) {
        Ok(t) => t,
        Err(_) => return vec![],
    };
    let v: Value = serde_json::from_str(&text).expect("known_findings.json must parse");
    let arr = v["findings"].as_array().cloned().unwrap_or_default();
    arr.into_iter()
        .map(|x| serde_json::from_value::<Finding>(x).expect("finding entry"))
        .filter(|f| f.property == property)
        .collect()
}

// ------------------------------------------------------------------ hashing

pub fn fx(s: &str) -> u64 {
    // FNV-1a 64
    let mut h: u64 = 0xcbf29ce484222325;
    for b in s.as_bytes() {
        h ^= *b as u64;
        h = h.wrapping_mul(0x100000001b3);
    }
    h ^ (h >> 29)
}

// ------------------------------------------------------------------ worker side

#[derive(Serialize, Deserialize, Default, Clone)]
pub struct Stats {
    pub evaluations: u64,
    pub states: u64,
    pub transitions: u64,
    pub nontrivial: u64,
    pub duplicates: u64,
    pub outcomes: BTreeMap<String, u64>,
    /// finding id -> (count, shortest example case)
    pub known: BTreeMap<String, (u64, String)>,
    pub samples: Vec<String>,
    pub violations: u64,
    pub failing_cases: u64,
    #[serde(default)]
    pub counters: BTreeMap<String, u64>,
}

impl Stats {
    pub fn merge(&mut self, o: &Stats) {
        self.evaluations += o.evaluations;
        self.states += o.states;
        self.transitions += o.transitions;
        self.nontrivial += o.nontrivial;
        self.duplicates += o.duplicates;
        self.violations += o.violations;
        self.failing_cases += o.failing_cases;
        for (k, v) in &o.outcomes {
            *self.outcomes.entry(k.clone()).or_insert(0) += v;
        }
        for (k, v) in &o.counters {
            *self.counters.entry(k.clone()).or_insert(0) += v;
        }
        for (k, (n, ex)) in &o.known {
            let e = self.known.entry(k.clone()).or_insert((0, ex.clone()));
            e.0 += n;
            if ex.len() < e.1.len() {
                e.1 = ex.clone();
            }
        }
        for s in &o.samples {
            if self.samples.len() < 12 {
                self.samples.push(s.clone());
            }
        }
    }
}

/// one file per (property, tier, parent process, shard): two runs of the same check do not share it
fn status_path(id: &str, tier: Tier, parent: u32, shard: usize) -> String {
    format!("/verif/target/run/{}/{}-{}-w{}.cur", id, tier.name(), parent, shard)
}

pub fn classify<'a>(f: &Failure, findings: &'a [Finding], active: &HashSet<String>) -> Option<&'a Finding> {
    findings
        .iter()
        .find(|k| k.is_open() && active.contains(&k.id) && k.matches(f))
}

/// Worker: enumerate, take own shard (by hash of the case), dedupe, run, classify, report.
pub fn worker_main(engine: &dyn Engine, tier: Tier, shard: usize, n: usize, from: u64, active: HashSet<String>) {
    let findings = load_findings(engine.id());
    let ctx = Ctx { active: active.clone(), tier };
    let mut stats = Stats::default();
    let mut seen: HashSet<u64> = HashSet::new();
    let mut idx: u64 = 0;
    let out = std::io::stdout();
    std::fs::create_dir_all(format!("/verif/target/run/{}", engine.id())).ok();
    let mut status = std::fs::File::create(status_path(engine.id(), tier, std::os::unix::process::parent_id(), shard)).expect("status file");
    let max_viol_lines = 40u64;
    let mut last_flush = Instant::now();
    let mut run_one = |case: &str| {
        let my_idx = idx;
        idx += 1;
        let h = fx(case);
        if (h % n as u64) as usize != shard {
            return;
        }
        if !seen.insert(h) {
            if my_idx >= from {
                stats.duplicates += 1;
            }
            return;
        }
        if my_idx < from {
            return;
        }
        // a shard that has already found 40 unattributed violations stops evaluating: the verdict
        // cannot change any more, and on a badly broken tree every further case may cost seconds
        if stats.violations >= 40 {
            *stats.counters.entry("cases_skipped_after_40_violations".to_string()).or_insert(0) += 1;
            return;
        }
        {
            use std::os::unix::fs::FileExt;
            let line = format!("{}\t{}\n", my_idx, serde_json::to_string(case).unwrap());
            let _ = status.set_len(0);
            let _ = status.write_at(line.as_bytes(), 0);
        }
        let r = engine.run(case, &ctx);
        stats.evaluations += 1;
        stats.states += 1;
        stats.transitions += r.transitions;
        if r.nontrivial {
            stats.nontrivial += 1;
        }
        *stats.outcomes.entry(r.outcome.clone()).or_insert(0) += 1;
        for (k, v) in &r.counters {
            *stats.counters.entry(k.clone()).or_insert(0) += v;
        }
        if stats.samples.len() < 3 || (r.nontrivial && stats.samples.len() < 6) {
            stats.samples.push(trunc(case, 300));
        }
        if !r.failures.is_empty() {
            stats.failing_cases += 1;
        }
        let mut unattributed: Vec<&Failure> = vec![];
        for f in &r.failures {
            match classify(f, &findings, &active) {
                Some(k) => {
                    let e = stats.known.entry(k.id.clone()).or_insert((0, case.to_string()));
                    e.0 += 1;
                    if case.len() < e.1.len() {
                        e.1 = case.to_string();
                    }
                }
                None => unattributed.push(f),
            }
        }
        if !unattributed.is_empty() {
            stats.violations += 1;
            if stats.violations <= max_viol_lines {
                let mut o = out.lock();
                let _ = writeln!(
                    o,
                    "V {}",
                    json!({"idx": my_idx, "case": case, "failures": unattributed})
                );
                let _ = o.flush();
            }
        }
        if last_flush.elapsed().as_millis() > 500 {
            let mut o = out.lock();
            let _ = writeln!(o, "P {}", serde_json::to_string(&stats).unwrap());
            let _ = o.flush();
            last_flush = Instant::now();
        }
    };
    engine.enumerate(tier, &mut run_one);
    let mut o = out.lock();
    let _ = writeln!(o, "E {}", serde_json::to_string(&stats).unwrap());
    let _ = o.flush();
}

/// Run a single case and print its failures as JSON (used for witnesses and replay verification).
pub fn one_main(engine: &dyn Engine, tier: Tier, case: &str, active: HashSet<String>) {
    let ctx = Ctx { active, tier };
    let r = engine.run(case, &ctx);
    println!("O {}", json!({"failures": r.failures, "outcome": r.outcome}));
}

// ------------------------------------------------------------------ parent side

pub struct RunOutput {
    pub failures: Vec<Failure>,
    pub died: Option<String>,
}

/// Execute one case in a subprocess (isolation against aborts), with an optional horizon.
pub fn run_case_subprocess(id: &str, tier: Tier, case: &str, active: &HashSet<String>, horizon_s: Option<u64>) -> RunOutput {
    run_case_subprocess_cpu(id, tier, case, active, horizon_s, None)
}

/// ... with a horizon in CPU seconds as well (RLIMIT_CPU in the child): unlike the wall-clock
/// horizon it does not depend on how busy the machine is; the wall clock stays as the backstop
/// for runs that wait without computing
pub fn run_case_subprocess_cpu(id: &str, tier: Tier, case: &str, active: &HashSet<String>, horizon_s: Option<u64>, cpu_s: Option<u64>) -> RunOutput {
    let exe = std::env::current_exe().unwrap();
    let mut cmd = Command::new(exe);
    if let Some(c) = cpu_s {
        cmd.env("MC_CPU_LIMIT", c.to_string());
    }
    let mut child = cmd
        .arg("--one")
        .arg(id)
        .arg(tier.name())
        .arg(active.iter().cloned().collect::<Vec<_>>().join(","))
        .stdin(Stdio::piped())
        .stdout(Stdio::piped())
        .stderr(Stdio::null())
        .spawn()
        .expect("spawn --one");
    child.stdin.take().unwrap().write_all(case.as_bytes()).unwrap();
    let start = Instant::now();
    let stdout = child.stdout.take().unwrap();
    let (tx, rx) = std::sync::mpsc::channel();
    std::thread::spawn(move || {
        let mut out = String::new();
        for l in BufReader::new(stdout).lines().flatten() {
            out.push_str(&l);
            out.push('\n');
        }
        let _ = tx.send(out);
    });
    let horizon = horizon_s.unwrap_or(600);
    let out = loop {
        match rx.recv_timeout(std::time::Duration::from_millis(100)) {
            Ok(o) => break Some(o),
            Err(_) => {
                if start.elapsed().as_secs() >= horizon {
                    let _ = child.kill();
                    break None;
                }
            }
        }
    };
    let status = child.wait().ok();
    {
        use std::os::unix::process::ExitStatusExt;
        if let (Some(c), Some(libc::SIGXCPU)) = (cpu_s, status.and_then(|st| st.signal())) {
            return RunOutput { failures: vec![], died: Some(format!("no completion within the horizon of {} s of CPU time", c)) };
        }
    }
    match out {
        None => RunOutput { failures: vec![], died: Some(format!("no completion within the {} s horizon", horizon)) },
        Some(o) => {
            for l in o.lines() {
                if let Some(rest) = l.strip_prefix("O ") {
                    let v: Value = serde_json::from_str(rest).unwrap();
                    let fs: Vec<Failure> = serde_json::from_value(v["failures"].clone()).unwrap();
                    return RunOutput { failures: fs, died: None };
                }
            }
            RunOutput { failures: vec![], died: Some(format!("process died: {:?}", status)) }
        }
    }
}

fn death_failure(engine: &dyn Engine, case: &str, why: &str) -> Failure {
    let clause = if why.contains("horizon") { "hang" } else { "abort" };
    Failure {
        clause: clause.into(),
        site: String::new(),
        // (the case may be one the harness's own parser cannot read)
        features: std::panic::catch_unwind(std::panic::AssertUnwindSafe(|| engine.features(case))).unwrap_or_default(),
        detail: format!("{} ({})", clause, why),
    }
}

pub fn run_one_isolated(engine: &dyn Engine, tier: Tier, case: &str, active: &HashSet<String>) -> Vec<Failure> {
    let r = run_case_subprocess(engine.id(), tier, case, active, engine.horizon_s());
    match r.died {
        Some(why) => vec![death_failure(engine, case, &why)],
        None => r.failures,
    }
}

/// several isolated runs at once (one subprocess each, at most 8 at a time), results in order
pub fn run_many_isolated(engine: &dyn Engine, tier: Tier, cases: &[&str], active: &HashSet<String>) -> Vec<Vec<Failure>> {
    let id = engine.id();
    let horizon = engine.horizon_s();
    let mut outs: Vec<Option<RunOutput>> = cases.iter().map(|_| None).collect();
    for (chunk_i, chunk) in cases.chunks(8).enumerate() {
        let rs: Vec<RunOutput> = std::thread::scope(|sc| {
            let hs: Vec<_> = chunk.iter().map(|c| sc.spawn(move || run_case_subprocess(id, tier, c, active, horizon))).collect();
            hs.into_iter().map(|h| h.join().expect("isolated run thread")).collect()
        });
        for (j, r) in rs.into_iter().enumerate() {
            outs[chunk_i * 8 + j] = Some(r);
        }
    }
    outs.into_iter()
        .zip(cases.iter())
        .map(|(r, c)| {
            let r = r.unwrap();
            match r.died {
                Some(why) => vec![death_failure(engine, c, &why)],
                None => r.failures,
            }
        })
        .collect()
}

struct WorkerHandle {
    shard: usize,
    child: std::process::Child,
    rx: std::sync::mpsc::Receiver<String>,
}

fn spawn_worker(id: &str, tier: Tier, shard: usize, n: usize, from: u64, active: &HashSet<String>) -> WorkerHandle {
    let exe = std::env::current_exe().unwrap();
    let mut child = Command::new(exe)
        .arg("--worker")
        .arg(id)
        .arg(tier.name())
        .arg(shard.to_string())
        .arg(n.to_string())
        .arg(from.to_string())
        .arg(active.iter().cloned().collect::<Vec<_>>().join(","))
        // 16 shard workers already use every core; iwe's internal rayon pool is kept small here
        // (pool size is an explored dimension of C16 only)
        .env("RAYON_NUM_THREADS", std::env::var("MC_RAYON_THREADS").unwrap_or("2".into()))
        .stdin(Stdio::null())
        .stdout(Stdio::piped())
        .stderr(Stdio::null())
        .spawn()
        .expect("spawn worker");
    let stdout = child.stdout.take().unwrap();
    let (tx, rx) = std::sync::mpsc::channel();
    std::thread::spawn(move || {
        for l in BufReader::new(stdout).lines().flatten() {
            if tx.send(l).is_err() {
                break;
            }
        }
    });
    WorkerHandle { shard, child, rx }
}

pub fn check_main(engine: &dyn Engine, tier: Tier) -> i32 {
    let t0 = Instant::now();
    let id = engine.id();
    let seed: i64 = std::env::var("VERIF_SEED").ok().and_then(|s| s.parse().ok()).unwrap_or(0);
    let findings: Vec<Finding> = load_findings(id).into_iter().filter(|k| k.tier.as_deref().map(|t| t == tier.name()).unwrap_or(true)).collect();
    let mut notes: Vec<String> = vec![];
    let mut violations: Vec<(String, Vec<Failure>)> = vec![];

    // 1. witnesses of known findings
    let mut active: HashSet<String> = HashSet::new();
    let none: HashSet<String> = HashSet::new();
    let open: Vec<&Finding> = findings.iter().filter(|k| k.is_open()).collect();
    let open_cases: Vec<&str> = open.iter().map(|k| k.witness.as_str()).collect();
    for (k, fs) in open.iter().zip(run_many_isolated(engine, tier, &open_cases, &none)) {
        if fs.iter().any(|f| k.matches(f)) {
            active.insert(k.id.clone());
        } else {
            notes.push(format!("known finding {} no longer reproduces on its witness; it suppresses nothing in this run", k.id));
        }
    }
    // fixed findings: their witnesses must pass (given the active open findings)
    let fixed: Vec<&Finding> = findings.iter().filter(|k| !k.is_open()).collect();
    let fixed_cases: Vec<&str> = fixed.iter().map(|k| k.witness.as_str()).collect();
    for (k, fs) in fixed.iter().zip(run_many_isolated(engine, tier, &fixed_cases, &active)) {
        let bad: Vec<Failure> = fs.into_iter().filter(|f| classify(f, &findings, &active).is_none()).collect();
        if !bad.is_empty() {
            violations.push((k.witness.clone(), bad));
        }
    }

    // 2. sharded exploration
    let n = engine.shards(tier).max(1);
    std::fs::create_dir_all(format!("/verif/target/run/{}", id)).ok();
    let mut total = Stats::default();
    let mut pending: Vec<WorkerHandle> = (0..n).map(|s| spawn_worker(id, tier, s, n, 0, &active)).collect();
    let mut engine_error: Option<String> = None;
    let mut aborts = 0u64;
    while let Some(mut w) = pending.pop() {
        let mut last_p: Option<Stats> = None;
        let mut done: Option<Stats> = None;
        while let Ok(line) = w.rx.recv() {
            if let Some(rest) = line.strip_prefix("V ") {
                let v: Value = serde_json::from_str(rest).unwrap();
                let case = v["case"].as_str().unwrap().to_string();
                let fs: Vec<Failure> = serde_json::from_value(v["failures"].clone()).unwrap();
                if violations.len() < 200 {
                    violations.push((case, fs));
                }
            } else if let Some(rest) = line.strip_prefix("P ") {
                last_p = serde_json::from_str(rest).ok();
            } else if let Some(rest) = line.strip_prefix("E ") {
                done = serde_json::from_str(rest).ok();
            }
        }
        let status = w.child.wait();
        match done {
            Some(s) => total.merge(&s),
            None => {
                // worker died: attribute to the case it announced
                if let Some(p) = &last_p {
                    total.merge(p);
                }
                let cur = std::fs::read_to_string(status_path(id, tier, std::process::id(), w.shard)).unwrap_or_default();
                let mut parts = cur.trim_end().splitn(2, '\t');
                let idx: Option<u64> = parts.next().and_then(|s| s.parse().ok());
                let case: Option<String> = parts.next().and_then(|s| serde_json::from_str(s).ok());
                match (idx, case) {
                    (Some(i), Some(c)) => {
                        aborts += 1;
                        if aborts > 200 {
                            engine_error = Some("more than 200 worker deaths".into());
                            break;
                        }
                        let f = death_failure(engine, &c, &format!("worker died: {:?}", status));
                        total.evaluations += 1;
                        total.failing_cases += 1;
                        match classify(&f, &findings, &active) {
                            Some(k) => {
                                let e = total.known.entry(k.id.clone()).or_insert((0, c.clone()));
                                e.0 += 1;
                            }
                            None => {
                                total.violations += 1;
                                violations.push((c.clone(), vec![f]));
                            }
                        }
                        pending.push(spawn_worker(id, tier, w.shard, n, i + 1, &active));
                    }
                    _ => {
                        engine_error = Some(format!("worker {} died outside a case: {:?}", w.shard, status));
                        break;
                    }
                }
            }
        }
    }
    for shard in 0..n {
        let _ = std::fs::remove_file(status_path(id, tier, std::process::id(), shard));
    }
    if let Some(e) = engine_error {
        println!("MACHINERY-ERROR property={} {}", id, e);
        return 2;
    }

    // 3. replay-verify violations (each is re-executed in a fresh process; must reproduce)
    violations.sort_by_key(|(c, _)| c.len());
    let mut reported = 0;
    let mut replay_paths: Vec<String> = vec![];
    let dir = format!("/verif/replays/{}", id);
    let _ = std::fs::remove_dir_all(&dir);
    let mut sig_seen: HashSet<String> = HashSet::new();
    let mut unreproduced: Vec<String> = vec![];
    for (case, fs) in &violations {
        let sig = fs.iter().map(|f| format!("{}@{}", f.clause, f.site)).collect::<Vec<_>>().join("+");
        // report at most 3 replay files per signature
        let cnt = sig_seen.iter().filter(|s| s.starts_with(&format!("{}#", sig))).count();
        if cnt >= 3 {
            continue;
        }
        sig_seen.insert(format!("{}#{}", sig, cnt));
        let again = run_one_isolated(engine, tier, case, &active);
        let again_un: Vec<&Failure> = again.iter().filter(|f| classify(f, &findings, &active).is_none()).collect();
        let same = again_un.iter().map(|f| format!("{}@{}", f.clause, f.site)).collect::<Vec<_>>().join("+");
        if same != sig && engine.schedule_dependent_failures_count() {
            // the property itself forbids results that depend on what the harness does not control
            // (thread schedule, hash seeds): a difference between two runs of the real code is a
            // witnessed violation even if a quiet process does not show it again
            notes.push(format!("the failure of case {} was observed in the sharded run and did not recur on replay in a quiet process: the outcome depends on scheduling", trunc(&format!("{:?}", case), 120)));
        } else if same != sig {
            // not a verdict; it ends the run as a machinery error unless another violation of this
            // run does reproduce (that one stands on its own replay)
            unreproduced.push(format!("case={} first={} replay={}", trunc(&format!("{:?}", case), 200), sig, same));
            continue;
        }
        std::fs::create_dir_all(&dir).ok();
        let path = format!("{}/{:03}.json", dir, reported);
        let doc = json!({"property": id, "tier": tier.name(), "case": case, "failures": fs});
        std::fs::write(&path, serde_json::to_string_pretty(&doc).unwrap()).ok();
        replay_paths.push(path);
        reported += 1;
        if reported >= 12 {
            break;
        }
    }

    if let Some(u) = unreproduced.first() {
        if reported == 0 {
            println!("MACHINERY-ERROR property={} failure did not reproduce on replay (harness nondeterminism): {}", id, u);
            return 2;
        }
        notes.push(format!("{} failing case(s) of the sharded run did not fail the same way on replay and are not reported (first: {}); the reported violations did", unreproduced.len(), u));
    }

    // 4. evidence
    let wall = t0.elapsed().as_secs_f64();
    let known_hit: Vec<Value> = total
        .known
        .iter()
        .map(|(k, (n, ex))| json!({"finding": k, "elements": n, "example": trunc(ex, 200)}))
        .collect();
    let mut coverage = json!({
        "states": total.states,
        "transitions": total.transitions.max(total.evaluations),
        "traces_validated_against_impl": total.evaluations,
        "evaluations": total.evaluations,
        "distinct_nontrivial": total.nontrivial,
        "distinct_outcomes": total.outcomes.len(),
        "outcomes": total.outcomes,
        "duplicates_skipped": total.duplicates,
        "failing_cases": total.failing_cases,
        "rule": engine.rule(),
        "bound": engine.bound(tier),
        "exhaustive": engine.exhaustive(tier),
        "samples": total.samples,
        "known_findings_hit": known_hit,
        "worker_deaths": aborts,
        "counters": total.counters,
        "notes": notes,
    });
    if let (Some(c), Some(x)) = (coverage.as_object_mut(), engine.extra_coverage(tier).as_object()) {
        for (k, v) in x {
            c.insert(k.clone(), v.clone());
        }
    }
    let ev = json!({
        "property_id": id,
        "tier": tier.name(),
        "seed": seed,
        "level": engine.level(),
        "coverage": coverage,
        "assumptions": engine.assumptions(),
        "wall_s": wall,
        "violations": violations.len(),
    });
    std::fs::create_dir_all("/verif/evidence").ok();
    std::fs::write(format!("/verif/evidence/{}.json", id), serde_json::to_string_pretty(&ev).unwrap()).expect("write evidence");

    // 5. report
    println!(
        "property={} tier={} cases={} states={} transitions={} nontrivial={} outcomes={} failing={} wall={:.1}s",
        id,
        tier.name(),
        total.evaluations,
        total.states,
        total.transitions,
        total.nontrivial,
        total.outcomes.len(),
        total.failing_cases,
        wall
    );
    for nline in &notes {
        println!("NOTE: property={} {}", id, nline);
    }
    for k in &findings {
        if k.is_open() && active.contains(&k.id) {
            let cnt = total.known.get(&k.id).map(|x| x.0).unwrap_or(0);
            println!("KNOWN-FINDING: property={} {} [{}] ({} elements)", id, k.text, k.id, cnt);
        }
    }
    if total.evaluations == 0 {
        println!("MACHINERY-ERROR property={} nothing was explored", id);
        return 2;
    }
    if !replay_paths.is_empty() {
        for p in &replay_paths {
            println!("VIOLATION property={} replay={}", id, p);
        }
        return 1;
    }
    0
}

pub fn replay_main(engine: &dyn Engine, path: &str) -> i32 {
    let text = std::fs::read_to_string(path).expect("replay file");
    let v: Value = serde_json::from_str(&text).expect("replay json");
    let case = v["case"].as_str().expect("case").to_string();
    let tier = Tier::parse(v["tier"].as_str().unwrap_or("quick")).unwrap_or(Tier::Quick);
    let findings = load_findings(engine.id());
    let active: HashSet<String> = findings.iter().filter(|k| k.is_open()).map(|k| k.id.clone()).collect();
    let fs = run_one_isolated(engine, tier, &case, &active);
    println!("case: {}", trunc(&format!("{:?}", case), 2000));
    let mut bad = 0;
    for f in &fs {
        let k = classify(f, &findings, &active);
        println!(
            "  {} clause={} site={} features={:?}\n    {}",
            match k { Some(k) => format!("known[{}]", k.id), None => { bad += 1; "FAIL".into() } },
            f.clause, f.site, f.features, f.detail
        );
    }
    if bad > 0 {
        println!("VIOLATION property={} replay={}", engine.id(), path);
        1
    } else {
        println!("no unattributed failure on replay");
        0
    }
}
