mod core;
mod drive;
mod edits;
mod engines;
mod libspace;
mod oracle;
mod space;

use crate::core::{Engine, Tier};
use std::collections::HashSet;
use std::io::Read;

fn engine(id: &str) -> Option<Box<dyn Engine>> {
    engines::get(id)
}

fn parse_active(s: &str) -> HashSet<String> {
    s.split(',').filter(|x| !x.is_empty()).map(|x| x.to_string()).collect()
}

fn main() {
    let args: Vec<String> = std::env::args().collect();
    if args.len() < 2 {
        eprintln!("usage: mc <ID> quick|thorough | mc <ID> --replay <file>");
        std::process::exit(2);
    }
    core::install_panic_hook();
    match args[1].as_str() {
        "--worker" => {
            let e = engine(&args[2]).expect("engine");
            let tier = Tier::parse(&args[3]).unwrap();
            let shard: usize = args[4].parse().unwrap();
            let n: usize = args[5].parse().unwrap();
            let from: u64 = args[6].parse().unwrap();
            let active = parse_active(args.get(7).map(|s| s.as_str()).unwrap_or(""));
            core::worker_main(e.as_ref(), tier, shard, n, from, active);
        }
        "--one" => {
            if let Some(secs) = std::env::var("MC_CPU_LIMIT").ok().and_then(|v| v.parse::<u64>().ok()) {
                let lim = libc::rlimit { rlim_cur: secs, rlim_max: secs + 5 };
                unsafe {
                    libc::setrlimit(libc::RLIMIT_CPU, &lim);
                }
            }
            let e = engine(&args[2]).expect("engine");
            let tier = Tier::parse(&args[3]).unwrap();
            let active = parse_active(args.get(4).map(|s| s.as_str()).unwrap_or(""));
            let mut case = String::new();
            std::io::stdin().read_to_string(&mut case).unwrap();
            core::one_main(e.as_ref(), tier, &case, active);
        }
        "--describe" => {
            let e = engine(&args[2]).expect("engine");
            println!("{:?}", e.features(&args[3]));
        }
        "--classes" => {
            // development aid: group failures of a tier by (clause, site, features)
            let e = engine(&args[2]).expect("engine");
            let tier = Tier::parse(&args[3]).unwrap();
            engines::classes(e.as_ref(), tier, args.get(4).map(|s| s.as_str()));
        }
        id => {
            let e = match engine(id) {
                Some(e) => e,
                None => {
                    eprintln!("unknown property {}", id);
                    std::process::exit(2);
                }
            };
            if args.get(2).map(|s| s.as_str()) == Some("--replay") {
                std::process::exit(core::replay_main(e.as_ref(), &args[3]));
            }
            let tier = args
                .get(2)
                .and_then(|s| Tier::parse(s))
                .or_else(|| std::env::var("VERIF_TIER").ok().and_then(|s| Tier::parse(&s)))
                .unwrap_or(Tier::Quick);
            std::process::exit(core::check_main(e.as_ref(), tier));
        }
    }
}
