//! R9: apply a WorkspaceEdit (create / delete / full-range replace / insert-at-0) to an in-memory
//! copy of the library, the way an LSP client would.

use crate::drive::key_of_uri;
use lsp_types::*;
use std::collections::BTreeMap;

#[derive(Debug, Default, Clone)]
pub struct Applied {
    pub created: Vec<String>,
    pub deleted: Vec<String>,
    pub edited: Vec<String>,
    pub problems: Vec<String>,
}

fn apply_text_edit(old: &str, e: &TextEdit) -> Result<String, String> {
    let r = e.range;
    if r.start == Position::new(0, 0) && r.end.line >= old.split('\n').count() as u32 {
        // replaces the whole document
        return Ok(e.new_text.clone());
    }
    if r.start == Position::new(0, 0) && r.end == Position::new(0, 0) {
        return Ok(format!("{}{}", e.new_text, old));
    }
    if old.is_empty() && r.start == Position::new(0, 0) {
        return Ok(e.new_text.clone());
    }
    Err(format!("unsupported edit range {:?} on a document of {} lines", r, old.split('\n').count()))
}

pub fn apply(lib: &mut BTreeMap<String, String>, edit: &WorkspaceEdit) -> Applied {
    let mut a = Applied::default();
    if edit.changes.is_some() {
        a.problems.push("edit uses `changes` (not expected from iwe)".into());
    }
    if let Some(DocumentChanges::Operations(ops)) = &edit.document_changes {
        for op in ops {
            match op {
                DocumentChangeOperation::Op(ResourceOp::Create(c)) => {
                    let k = key_of_uri(&c.uri);
                    if lib.contains_key(&k) {
                        a.problems.push(format!("create of existing note {}", k));
                    } else {
                        lib.insert(k.clone(), String::new());
                    }
                    a.created.push(k);
                }
                DocumentChangeOperation::Op(ResourceOp::Delete(d)) => {
                    let k = key_of_uri(&d.uri);
                    if lib.remove(&k).is_none() {
                        a.problems.push(format!("delete of missing note {}", k));
                    }
                    a.deleted.push(k);
                }
                DocumentChangeOperation::Op(ResourceOp::Rename(r)) => {
                    let (o, n) = (key_of_uri(&r.old_uri), key_of_uri(&r.new_uri));
                    match lib.remove(&o) {
                        Some(t) => {
                            lib.insert(n.clone(), t);
                        }
                        None => a.problems.push(format!("rename of missing note {}", o)),
                    }
                    a.deleted.push(o);
                    a.created.push(n);
                }
                DocumentChangeOperation::Edit(e) => {
                    let k = key_of_uri(&e.text_document.uri);
                    let mut text = match lib.get(&k) {
                        Some(t) => t.clone(),
                        None => {
                            a.problems.push(format!("edit of missing note {}", k));
                            continue;
                        }
                    };
                    for ed in &e.edits {
                        let te = match ed {
                            OneOf::Left(te) => te.clone(),
                            OneOf::Right(ae) => ae.text_edit.clone(),
                        };
                        match apply_text_edit(&text, &te) {
                            Ok(t) => text = t,
                            Err(p) => a.problems.push(format!("{}: {}", k, p)),
                        }
                    }
                    lib.insert(k.clone(), text);
                    a.edited.push(k);
                }
            }
        }
    } else if let Some(DocumentChanges::Edits(es)) = &edit.document_changes {
        for e in es {
            let k = key_of_uri(&e.text_document.uri);
            let mut text = lib.get(&k).cloned().unwrap_or_default();
            for ed in &e.edits {
                if let OneOf::Left(te) = ed {
                    if let Ok(t) = apply_text_edit(&text, te) {
                        text = t;
                    }
                }
            }
            lib.insert(k.clone(), text);
            a.edited.push(k);
        }
    }
    a
}
