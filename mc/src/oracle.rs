//! Reference models that share no code with iwe. Trusted base: pulldown-cmark with exactly the
//! reader's option set (CommonMark + tables + wiki-links + YAML front-matter) and std.
//!
//! R1 content extractor, R2 outline extractor, R3 link scanner + own path resolver,
//! R4 position mapper.

use pulldown_cmark::{CodeBlockKind, Event, LinkType, Options, Parser, Tag, TagEnd};

pub fn md_options() -> Options {
    Options::ENABLE_YAML_STYLE_METADATA_BLOCKS | Options::ENABLE_WIKILINKS | Options::ENABLE_TABLES
}

// ------------------------------------------------------------------ R1

#[derive(Debug, Clone, PartialEq, Eq, Hash, PartialOrd, Ord)]
pub enum Tok {
    W(String),
    Code(String),
    /// kind ("reg" | "wiki" | "wikip" | "auto"), destination, text tokens
    Link(String, String, Vec<Tok>),
    Image(String, Vec<Tok>),
}

#[derive(Debug, Clone, PartialEq, Eq, Hash, PartialOrd, Ord)]
pub enum B {
    Para(Vec<Tok>),
    Heading(Vec<Tok>),
    Code(String, String),
    Rule,
    Quote(Vec<B>),
    /// ordered?, items
    List(bool, Vec<Vec<B>>),
    Table(Vec<Vec<Tok>>),
    Meta(String),
}

#[derive(Debug)]
enum In {
    Text(String),
    Sp,
    Code(String),
    Open(&'static str, String, String),
    Close,
}

fn toks(ins: &[In]) -> Vec<Tok> {
    fn flush(cur: &mut String, out: &mut Vec<Tok>) {
        for w in cur.split_whitespace() {
            out.push(Tok::W(w.to_string()));
        }
        cur.clear();
    }
    fn go(ins: &[In], i: &mut usize) -> Vec<Tok> {
        let mut out = vec![];
        let mut cur = String::new();
        while *i < ins.len() {
            match &ins[*i] {
                In::Text(t) => {
                    cur.push_str(t);
                    *i += 1;
                }
                In::Sp => {
                    cur.push(' ');
                    *i += 1;
                }
                In::Code(c) => {
                    flush(&mut cur, &mut out);
                    out.push(Tok::Code(c.clone()));
                    *i += 1;
                }
                In::Open(k, kind, dest) => {
                    flush(&mut cur, &mut out);
                    *i += 1;
                    let inner = go(ins, i);
                    if *k == "link" {
                        out.push(Tok::Link(kind.clone(), dest.clone(), inner));
                    } else {
                        out.push(Tok::Image(dest.clone(), inner));
                    }
                }
                In::Close => {
                    flush(&mut cur, &mut out);
                    *i += 1;
                    return out;
                }
            }
        }
        flush(&mut cur, &mut out);
        out
    }
    let mut i = 0;
    go(ins, &mut i)
}

enum Frame {
    Blocks(Vec<B>),
    Items(bool, Vec<Vec<B>>),
    Inl(&'static str, Vec<In>),
    Code(String, String),
    Table(Vec<Vec<Tok>>),
    Cell(Vec<In>),
    Skip,
}

pub fn link_kind(t: &LinkType) -> &'static str {
    match t {
        LinkType::WikiLink { has_pothole } => {
            if *has_pothole {
                "wikip"
            } else {
                "wiki"
            }
        }
        LinkType::Autolink | LinkType::Email => "auto",
        _ => "reg",
    }
}

/// Fold pulldown's event stream into the canonical content tree.
pub fn extract(src: &str) -> Vec<B> {
    let p = Parser::new_ext(src, md_options());
    let mut st: Vec<Frame> = vec![Frame::Blocks(vec![])];
    let mut meta = false;
    fn push_block(st: &mut Vec<Frame>, b: B) {
        match st.last_mut().unwrap() {
            Frame::Blocks(v) => v.push(b),
            Frame::Items(_, items) => {
                if let Some(l) = items.last_mut() {
                    l.push(b)
                }
            }
            _ => {}
        }
    }
    fn push_in(st: &mut Vec<Frame>, x: In) {
        match st.last_mut().unwrap() {
            Frame::Inl(_, v) => v.push(x),
            Frame::Cell(v) => v.push(x),
            Frame::Items(..) | Frame::Blocks(..) => {
                st.push(Frame::Inl("implicit", vec![x]));
            }
            _ => {}
        }
    }
    fn close_implicit(st: &mut Vec<Frame>) {
        if let Some(Frame::Inl("implicit", _)) = st.last() {
            if let Some(Frame::Inl(_, v)) = st.pop() {
                push_block(st, B::Para(toks(&v)));
            }
        }
    }
    for ev in p {
        match ev {
            Event::Start(tag) => match tag {
                Tag::Paragraph => {
                    close_implicit(&mut st);
                    st.push(Frame::Inl("para", vec![]))
                }
                Tag::Heading { .. } => {
                    close_implicit(&mut st);
                    st.push(Frame::Inl("head", vec![]))
                }
                Tag::BlockQuote(_) => {
                    close_implicit(&mut st);
                    st.push(Frame::Blocks(vec![]))
                }
                Tag::CodeBlock(k) => {
                    close_implicit(&mut st);
                    st.push(Frame::Code(
                        match k {
                            CodeBlockKind::Fenced(l) => l.to_string(),
                            _ => String::new(),
                        },
                        String::new(),
                    ))
                }
                Tag::List(n) => {
                    close_implicit(&mut st);
                    st.push(Frame::Items(n.is_some(), vec![]))
                }
                Tag::Item => {
                    close_implicit(&mut st);
                    if let Frame::Items(_, items) = st.last_mut().unwrap() {
                        items.push(vec![])
                    }
                }
                Tag::Table(_) => {
                    close_implicit(&mut st);
                    st.push(Frame::Table(vec![]))
                }
                Tag::TableHead | Tag::TableRow => {}
                Tag::TableCell => st.push(Frame::Cell(vec![])),
                Tag::HtmlBlock => {
                    close_implicit(&mut st);
                    st.push(Frame::Skip)
                }
                Tag::MetadataBlock(_) => {
                    meta = true;
                }
                Tag::Link { link_type, dest_url, .. } => push_in(
                    &mut st,
                    In::Open("link", link_kind(&link_type).to_string(), dest_url.to_string()),
                ),
                Tag::Image { dest_url, .. } => push_in(&mut st, In::Open("image", String::new(), dest_url.to_string())),
                _ => {}
            },
            Event::End(tag) => match tag {
                TagEnd::Paragraph => {
                    if let Some(Frame::Inl(_, v)) = st.pop() {
                        push_block(&mut st, B::Para(toks(&v)))
                    }
                }
                TagEnd::Heading(_) => {
                    if let Some(Frame::Inl(_, v)) = st.pop() {
                        push_block(&mut st, B::Heading(toks(&v)))
                    }
                }
                TagEnd::BlockQuote(_) => {
                    close_implicit(&mut st);
                    if let Some(Frame::Blocks(v)) = st.pop() {
                        push_block(&mut st, B::Quote(v))
                    }
                }
                TagEnd::CodeBlock => {
                    if let Some(Frame::Code(l, t)) = st.pop() {
                        push_block(&mut st, B::Code(l, t))
                    }
                }
                TagEnd::List(_) => {
                    close_implicit(&mut st);
                    if let Some(Frame::Items(o, items)) = st.pop() {
                        push_block(&mut st, B::List(o, items))
                    }
                }
                TagEnd::Item => {
                    close_implicit(&mut st);
                }
                TagEnd::Table => {
                    if let Some(Frame::Table(c)) = st.pop() {
                        push_block(&mut st, B::Table(c))
                    }
                }
                TagEnd::TableCell => {
                    if let Some(Frame::Cell(v)) = st.pop() {
                        if let Some(Frame::Table(c)) = st.last_mut() {
                            c.push(toks(&v))
                        }
                    }
                }
                TagEnd::HtmlBlock => {
                    st.pop();
                }
                TagEnd::MetadataBlock(_) => {
                    meta = false;
                    // the metadata text may arrive in several pieces: one Meta block
                    let mut text = String::new();
                    if let Some(Frame::Blocks(v)) = st.last_mut() {
                        while let Some(B::Meta(t)) = v.last() {
                            text = format!("{}{}", t, text);
                            v.pop();
                        }
                        v.push(B::Meta(text.trim_end_matches('\n').to_string()));
                    }
                }
                TagEnd::Link | TagEnd::Image => push_in(&mut st, In::Close),
                _ => {}
            },
            Event::Text(t) => {
                if meta {
                    push_block(&mut st, B::Meta(t.to_string()));
                } else if let Some(Frame::Code(_, b)) = st.last_mut() {
                    b.push_str(&t)
                } else if let Some(Frame::Skip) = st.last() {
                } else {
                    push_in(&mut st, In::Text(t.to_string()))
                }
            }
            Event::Code(t) => push_in(&mut st, In::Code(t.to_string())),
            Event::InlineHtml(t) => push_in(&mut st, In::Text(t.to_string())),
            Event::InlineMath(t) => push_in(&mut st, In::Text(format!("${}$", t))),
            Event::SoftBreak | Event::HardBreak => push_in(&mut st, In::Sp),
            Event::Rule => {
                close_implicit(&mut st);
                push_block(&mut st, B::Rule)
            }
            Event::Html(_) => {}
            _ => {}
        }
    }
    close_implicit(&mut st);
    match st.pop() {
        Some(Frame::Blocks(v)) => v,
        _ => vec![],
    }
}

fn canon_code(l: &str, t: &str) -> B {
    // info string compared trimmed; body compared modulo surrounding blank lines
    B::Code(l.trim().to_string(), t.trim_matches('\n').to_string())
}

fn says_nothing(b: &B) -> bool {
    match b {
        B::Para(t) | B::Heading(t) => t.is_empty(),
        B::Quote(v) => v.is_empty(),
        B::List(_, items) => items.is_empty(),
        _ => false,
    }
}

/// Input-side canonical form: the statement's own equivalences (a heading that opens a list
/// item is the item's text; an item that starts with a list is merged into the enclosing list;
/// empty items / empty containers carry nothing).
pub fn canon_in(bs: Vec<B>, in_container: bool) -> Vec<B> {
    bs.into_iter()
        .map(|b| match b {
            B::Quote(v) => B::Quote(canon_in(v, true)),
            B::List(o, items) => {
                let mut out: Vec<Vec<B>> = vec![];
                for it in items {
                    let mut it = canon_in(it, true);
                    if it.is_empty() {
                        continue;
                    }
                    if let B::Heading(t) = &it[0] {
                        it[0] = B::Para(t.clone());
                    }
                    if let B::List(_, inner) = &it[0] {
                        let mut inner = inner.clone();
                        let rest: Vec<B> = it[1..].to_vec();
                        if let Some(last) = inner.last_mut() {
                            last.extend(rest);
                        }
                        out.extend(inner);
                        continue;
                    }
                    out.push(it);
                }
                B::List(o, out)
            }
            B::Code(l, t) => canon_code(&l, &t),
            x => x,
        })
        // (a paragraph without any text - the parser reports one for a whitespace line behind a link
        // reference definition - carries nothing at any level)
        .filter(|b| !(in_container && says_nothing(b)) && !matches!(b, B::Para(t) if t.is_empty()) && !matches!(b, B::List(_, v) if v.is_empty()) && !matches!(b, B::Quote(v) if v.is_empty()))
        .collect()
}

pub fn canon_out(bs: Vec<B>, in_container: bool) -> Vec<B> {
    bs.into_iter()
        .map(|b| match b {
            B::Quote(v) => B::Quote(canon_out(v, true)),
            B::List(o, items) => B::List(
                o,
                items.into_iter().map(|i| canon_out(i, true)).filter(|i| !i.is_empty()).collect(),
            ),
            B::Code(l, t) => canon_code(&l, &t),
            x => x,
        })
        // (a paragraph without any text - the parser reports one for a whitespace line behind a link
        // reference definition - carries nothing at any level)
        .filter(|b| !(in_container && says_nothing(b)) && !matches!(b, B::Para(t) if t.is_empty()) && !matches!(b, B::List(_, v) if v.is_empty()) && !matches!(b, B::Quote(v) if v.is_empty()))
        .collect()
}

/// Rewrite every token list with `f` (used for link-text wildcards, `.md` handling).
pub fn map_toks(bs: Vec<B>, f: &dyn Fn(Vec<Tok>) -> Vec<Tok>) -> Vec<B> {
    bs.into_iter()
        .map(|b| match b {
            B::Para(t) => B::Para(f(t)),
            B::Heading(t) => B::Heading(f(t)),
            B::Quote(v) => B::Quote(map_toks(v, f)),
            B::List(o, items) => B::List(o, items.into_iter().map(|i| map_toks(i, f)).collect()),
            B::Table(cells) => B::Table(cells.into_iter().map(|c| f(c)).collect()),
            x => x,
        })
        .collect()
}

pub fn strip_md(dest: &str) -> String {
    dest.strip_suffix(".md").unwrap_or(dest).to_string()
}

/// Normalise link tokens: `.md` on internal destinations is presentation (refs_extension);
/// text of regular internal links whose target (resolved from `dir`) is in `titled` may be refreshed.
pub fn norm_links(ts: Vec<Tok>, dir: &str, titled: &dyn Fn(&str) -> bool) -> Vec<Tok> {
    ts.into_iter()
        .map(|t| match t {
            Tok::Link(kind, dest, inner) => {
                let inner = norm_links(inner, dir, titled);
                if is_external(&dest) {
                    Tok::Link(kind, dest, inner)
                } else {
                    let d = strip_md(&dest);
                    let refreshed = kind == "reg" && resolve(dir, &dest).map(|k| titled(&k)).unwrap_or(false);
                    // note: iwe may also look the title up by the unresolved url; that is C06's business
                    if refreshed {
                        Tok::Link(kind, d, vec![Tok::W("*".into())])
                    } else {
                        Tok::Link(kind, d, inner)
                    }
                }
            }
            Tok::Image(d, inner) => Tok::Image(d, norm_links(inner, dir, titled)),
            x => x,
        })
        .collect()
}

pub fn plain_text(ts: &[Tok]) -> String {
    let mut out: Vec<String> = vec![];
    for t in ts {
        match t {
            Tok::W(w) => out.push(w.clone()),
            Tok::Code(c) => out.push(c.clone()),
            Tok::Link(_, _, inner) | Tok::Image(_, inner) => {
                let s = plain_text(inner);
                if !s.is_empty() {
                    out.push(s)
                }
            }
        }
    }
    out.join(" ")
}

/// Count blocks of each kind, recursively (for "nothing duplicated / merged / deleted").
pub fn count_blocks(bs: &[B]) -> usize {
    bs.iter()
        .map(|b| match b {
            B::Quote(v) => 1 + count_blocks(v),
            B::List(_, items) => 1 + items.iter().map(|i| count_blocks(i)).sum::<usize>(),
            _ => 1,
        })
        .sum()
}

pub fn first_diff(a: &[B], b: &[B]) -> String {
    for (i, (x, y)) in a.iter().zip(b.iter()).enumerate() {
        if x != y {
            return format!("block {}: expected {:?} got {:?}", i, x, y);
        }
    }
    if a.len() != b.len() {
        return format!(
            "block count: expected {} got {}; extra: {:?}",
            a.len(),
            b.len(),
            if a.len() > b.len() { &a[b.len()..] } else { &b[a.len()..] }
        );
    }
    String::new()
}

// ------------------------------------------------------------------ R2 outline

#[derive(Debug, Clone, PartialEq, Eq)]
pub struct OutlineBlock {
    /// container path: 'Q' quote, 'U' bullet list item, 'O' ordered list item
    pub path: String,
    /// index (into headings, same container) of the nearest preceding heading at this container level, -1 if none
    pub under: i64,
    pub kind: &'static str,
    pub text: String,
}

#[derive(Debug, Clone, PartialEq, Eq, Default)]
pub struct Outline {
    /// top-level (document container) headings: (level, text)
    pub headings: Vec<(u8, String)>,
    pub blocks: Vec<OutlineBlock>,
    /// item counts of every list, in document order
    pub list_items: Vec<(bool, usize)>,
}

/// R2: heading sequence with levels (taken from the event stream), and per block its container
/// path and nearest preceding top-level heading. Works on the canonical R1 tree for containers
/// and on the raw event stream for levels.
pub fn heading_levels(src: &str) -> Vec<(u8, String, usize)> {
    // (level, text, container depth) for every heading in document order
    let mut out = vec![];
    let mut depth = 0usize;
    let mut cur: Option<(u8, String)> = None;
    for ev in Parser::new_ext(src, md_options()) {
        match ev {
            Event::Start(Tag::BlockQuote(_)) | Event::Start(Tag::Item) => depth += 1,
            Event::End(TagEnd::BlockQuote(_)) | Event::End(TagEnd::Item) => depth -= 1,
            Event::Start(Tag::Heading { level, .. }) => cur = Some((level as u8, String::new())),
            Event::End(TagEnd::Heading(_)) => {
                if let Some((l, t)) = cur.take() {
                    out.push((l, t.split_whitespace().collect::<Vec<_>>().join(" "), depth))
                }
            }
            Event::Text(t) | Event::Code(t) | Event::InlineHtml(t) => {
                if let Some((_, s)) = cur.as_mut() {
                    s.push_str(&t)
                }
            }
            Event::SoftBreak | Event::HardBreak => {
                if let Some((_, s)) = cur.as_mut() {
                    s.push(' ')
                }
            }
            _ => {}
        }
    }
    out
}

/// R2: heading levels per container instance (the document, every block quote, every list item),
/// in the order in which the containers open; a heading that is the first block of a list item is
/// that item's text and not part of its outline. Containers without headings are left out.
pub fn container_levels(src: &str) -> Vec<Vec<u8>> {
    let mut seqs: Vec<Vec<u8>> = vec![vec![]];
    let mut stack: Vec<usize> = vec![0];
    let mut item_fresh = false;
    for ev in Parser::new_ext(src, md_options()) {
        let fresh = item_fresh;
        item_fresh = false;
        match ev {
            Event::Start(Tag::Item) => {
                seqs.push(vec![]);
                stack.push(seqs.len() - 1);
                item_fresh = true;
            }
            Event::Start(Tag::BlockQuote(_)) => {
                seqs.push(vec![]);
                stack.push(seqs.len() - 1);
            }
            Event::End(TagEnd::BlockQuote(_)) | Event::End(TagEnd::Item) => {
                stack.pop();
            }
            Event::Start(Tag::Heading { level, .. }) => {
                if !fresh {
                    seqs[*stack.last().unwrap()].push(level as u8);
                }
            }
            // HTML blocks are not part of a note's content (dropped by the reader)
            Event::Start(Tag::HtmlBlock) | Event::End(TagEnd::HtmlBlock) | Event::Html(_) => item_fresh = fresh,
            _ => {}
        }
    }
    let doc = seqs[0].clone();
    let mut out = vec![doc];
    out.extend(seqs.into_iter().skip(1).filter(|s| !s.is_empty()));
    out
}

/// every list in document order (outer before inner): (ordered?, first line, last non-blank line)
pub fn list_spans(src: &str) -> Vec<(bool, usize, usize)> {
    let mut out = vec![];
    for (ev, r) in Parser::new_ext(src, md_options()).into_offset_iter() {
        if let Event::Start(Tag::List(start)) = ev {
            let end = r.end.min(src.len());
            // the range of a list may include trailing blank lines: take its last non-blank character
            let trimmed = src[r.start..end].trim_end_matches(|c: char| c.is_whitespace() || c == '>').len();
            let last = r.start + trimmed.saturating_sub(1);
            out.push((start.is_some(), line_of(src, r.start), line_of(src, last)));
        }
    }
    out
}

pub fn outline(bs: &[B]) -> Outline {
    fn kind(b: &B) -> &'static str {
        match b {
            B::Para(_) => "para",
            B::Heading(_) => "heading",
            B::Code(..) => "code",
            B::Rule => "rule",
            B::Quote(_) => "quote",
            B::List(true, _) => "olist",
            B::List(false, _) => "ulist",
            B::Table(_) => "table",
            B::Meta(_) => "meta",
        }
    }
    fn text(b: &B) -> String {
        match b {
            B::Para(t) | B::Heading(t) => plain_text(t),
            B::Code(_, t) => t.clone(),
            B::Table(c) => c.iter().map(|x| plain_text(x)).collect::<Vec<_>>().join("|"),
            _ => String::new(),
        }
    }
    fn walk(bs: &[B], path: &str, o: &mut Outline) {
        let mut under: i64 = -1;
        let mut nh = 0i64;
        for b in bs {
            if let B::Heading(_) = b {
                under = nh;
                nh += 1;
            }
            o.blocks.push(OutlineBlock { path: path.to_string(), under, kind: kind(b), text: text(b) });
            match b {
                B::Quote(v) => walk(v, &format!("{}Q", path), o),
                B::List(ord, items) => {
                    o.list_items.push((*ord, items.len()));
                    for it in items {
                        walk(it, &format!("{}{}", path, if *ord { 'O' } else { 'U' }), o)
                    }
                }
                _ => {}
            }
        }
    }
    let mut o = Outline::default();
    walk(bs, "", &mut o);
    o
}

// ------------------------------------------------------------------ R3 links

#[derive(Debug, Clone, PartialEq, Eq, Hash, PartialOrd, Ord)]
pub struct LinkOcc {
    pub kind: String,
    pub dest: String,
    /// byte span of the whole link in the source
    pub span: (usize, usize),
    /// byte offset where the innermost containing leaf block (paragraph / heading / item / table) starts
    pub block_start: usize,
    /// the link is the only inline of its paragraph (iwe: block reference)
    pub alone_in_para: bool,
    pub in_table: bool,
    pub in_quote: bool,
    pub in_heading: bool,
    pub text: String,
}

pub fn scan_links(src: &str) -> Vec<LinkOcc> {
    let p = Parser::new_ext(src, md_options()).into_offset_iter();
    let mut out: Vec<LinkOcc> = vec![];
    // (kind, start, inline_count, first_link_index)
    let mut blocks: Vec<(char, usize, usize, usize)> = vec![];
    let mut table_depth = 0;
    let mut quote_depth = 0;
    let mut link_depth = 0;
    let mut open_links: Vec<usize> = vec![];
    for (ev, range) in p {
        match ev {
            Event::Start(Tag::Paragraph) => blocks.push(('p', range.start, 0, usize::MAX)),
            Event::Start(Tag::Heading { .. }) => blocks.push(('h', range.start, 0, usize::MAX)),
            Event::Start(Tag::Item) => blocks.push(('i', range.start, 0, usize::MAX)),
            Event::Start(Tag::BlockQuote(_)) => quote_depth += 1,
            Event::End(TagEnd::BlockQuote(_)) => quote_depth -= 1,
            Event::Start(Tag::Table(_)) => {
                table_depth += 1;
                blocks.push(('t', range.start, 0, usize::MAX));
            }
            Event::End(TagEnd::Paragraph) | Event::End(TagEnd::Heading(_)) | Event::End(TagEnd::Item) => {
                if let Some((k, _, n, first)) = blocks.pop() {
                    if k == 'p' && n == 1 && first != usize::MAX {
                        out[first].alone_in_para = true;
                    }
                }
            }
            Event::End(TagEnd::Table) => {
                table_depth -= 1;
                blocks.pop();
            }
            Event::Start(Tag::Link { link_type, dest_url, .. }) => {
                if link_depth == 0 {
                    if let Some(b) = blocks.last_mut() {
                        b.2 += 1;
                        if b.3 == usize::MAX {
                            b.3 = out.len();
                        }
                    }
                }
                link_depth += 1;
                let bs = blocks.last().map(|b| b.1).unwrap_or(range.start);
                let in_heading = blocks.last().map(|b| b.0 == 'h').unwrap_or(false);
                open_links.push(out.len());
                out.push(LinkOcc {
                    kind: link_kind(&link_type).into(),
                    dest: dest_url.to_string(),
                    span: (range.start, range.end),
                    block_start: bs,
                    alone_in_para: false,
                    in_table: table_depth > 0,
                    in_quote: quote_depth > 0,
                    in_heading,
                    text: String::new(),
                });
            }
            Event::End(TagEnd::Link) => {
                link_depth -= 1;
                open_links.pop();
            }
            Event::Start(Tag::Image { .. }) => {
                if link_depth == 0 {
                    if let Some(b) = blocks.last_mut() {
                        b.2 += 1;
                    }
                }
            }
            Event::Text(ref t) | Event::Code(ref t) | Event::InlineHtml(ref t) | Event::InlineMath(ref t) => {
                if link_depth == 0 {
                    if let Some(b) = blocks.last_mut() {
                        b.2 += 1;
                    }
                }
                for i in &open_links {
                    out[*i].text.push_str(t);
                }
            }
            Event::SoftBreak | Event::HardBreak => {
                // iwe's reader drops breaks, so a paragraph "[a](b)\n" + break + nothing cannot occur;
                // a break between a link and other text means other text exists and is counted there
                for i in &open_links {
                    out[*i].text.push(' ');
                }
            }
            _ => {}
        }
    }
    out
}

pub fn is_external(url: &str) -> bool {
    let l = url.to_lowercase();
    l.starts_with("http://") || l.starts_with("https://") || l.starts_with("mailto:")
}

/// Own resolver: directory of the linking note + url -> key (None if it climbs above the root).
pub fn resolve(dir: &str, url: &str) -> Option<String> {
    let u = url.strip_suffix(".md").unwrap_or(url);
    let mut segs: Vec<&str> = if dir.is_empty() { vec![] } else { dir.split('/').collect() };
    for s in u.split('/') {
        match s {
            "" | "." => {}
            ".." => {
                if segs.pop().is_none() {
                    return None;
                }
            }
            x => segs.push(x),
        }
    }
    Some(segs.join("/"))
}

pub fn dir_of(key: &str) -> String {
    match key.rfind('/') {
        Some(i) => key[..i].to_string(),
        None => String::new(),
    }
}

// ------------------------------------------------------------------ R4 positions

/// byte offset -> (line, UTF-16 column); `\n` and `\r\n` aware (a line ends at `\n`).
pub fn pos16(src: &str, off: usize) -> (usize, usize) {
    let mut line = 0;
    let mut ls = 0;
    for (i, b) in src.bytes().enumerate() {
        if i >= off {
            break;
        }
        if b == b'\n' {
            line += 1;
            ls = i + 1;
        }
    }
    (line, src[ls..off].encode_utf16().count())
}

pub fn line_of(src: &str, off: usize) -> usize {
    src.as_bytes()[..off.min(src.len())].iter().filter(|b| **b == b'\n').count()
}

/// lines of the text as an editor sees them (split at \n, a trailing \r belongs to the line)
pub fn line_count(src: &str) -> usize {
    src.split('\n').count()
}

// ------------------------------------------------------------------ input features (trigger vocabulary)

/// characters that are (or can be) Markdown syntax wherever they stand in inline text
const ALWAYS_ACTIVE: &str = "\\`*_[]<>#|~$&";

fn text_is_active(t: &str, at_block_start: bool) -> bool {
    if t.chars().any(|c| ALWAYS_ACTIVE.contains(c)) {
        return true;
    }
    if at_block_start {
        let tt = t.trim_start();
        if tt.starts_with('-') || tt.starts_with('+') || tt.starts_with('=') || tt.starts_with(':') {
            return true;
        }
        let digits = tt.chars().take_while(|c| c.is_ascii_digit()).count();
        if digits > 0 {
            if let Some(c) = tt.chars().nth(digits) {
                if c == '.' || c == ')' {
                    return true;
                }
            }
        }
    }
    false
}

/// Features of a document computed from the harness's own parse of the *input* only.
/// They are the trigger vocabulary of known findings (DESIGN §2.5).
pub fn doc_features(src: &str) -> Vec<String> {
    let mut f: Vec<String> = vec![];
    macro_rules! add {
        ($s:expr) => {{
            let s: String = $s.into();
            if !f.iter().any(|x| *x == s) {
                f.push(s)
            }
        }};
    }
    if src.contains('\r') {
        add!("cr");
    }
    if !src.is_ascii() {
        add!("non-ascii");
    }
    struct Item {
        kinds: Vec<&'static str>,
    }
    let mut items: Vec<Item> = vec![];
    let mut in_cell = false;
    let mut in_heading = false;
    let mut in_code_block = false;
    let mut quote_depth = 0;
    let mut at_block_start = false;
    let mut prev_end_table = false;
    let evs: Vec<(Event, std::ops::Range<usize>)> = Parser::new_ext(src, md_options()).into_offset_iter().collect();
    // block registration inside the innermost open item
    fn reg(items: &mut Vec<Item>, kind: &'static str) -> Vec<String> {
        let mut out = vec![];
        if let Some(it) = items.last_mut() {
            if it.kinds.is_empty() {
                if !matches!(kind, "para" | "text" | "heading" | "list") {
                    out.push(format!("item-first-block={}", kind));
                    out.push("item-first-block-nontext".to_string());
                } else if kind != "para" && kind != "text" {
                    out.push(format!("item-first-block={}", kind));
                }
            } else {
                let prev = *it.kinds.last().unwrap();
                if matches!(prev, "para" | "text" | "heading") {
                    out.push(format!("item:text-then-{}", kind));
                }
            }
            it.kinds.push(kind);
        }
        out
    }
    for (i, (ev, range)) in evs.iter().enumerate() {
        let is_block_start = matches!(
            ev,
            Event::Start(Tag::Paragraph)
                | Event::Start(Tag::Heading { .. })
                | Event::Start(Tag::CodeBlock(_))
                | Event::Start(Tag::BlockQuote(_))
                | Event::Start(Tag::List(_))
                | Event::Start(Tag::HtmlBlock)
                | Event::Start(Tag::Table(_))
                | Event::Rule
        );
        if is_block_start && prev_end_table {
            add!("block-after-table");
        }
        if is_block_start {
            prev_end_table = false;
        }
        match ev {
            Event::Start(tag) => match tag {
                Tag::Paragraph => {
                    for x in reg(&mut items, "para") {
                        add!(x);
                    }
                    at_block_start = true;
                }
                Tag::Heading { .. } => {
                    for x in reg(&mut items, "heading") {
                        add!(x);
                    }
                    in_heading = true;
                    at_block_start = true;
                    if let Some((Event::End(TagEnd::Heading(_)), _)) = evs.get(i + 1) {
                        add!("empty-heading");
                    }
                    if quote_depth > 0 {
                        add!("heading-in-quote");
                    }
                    if !items.is_empty() {
                        add!("heading-in-item");
                    }
                }
                Tag::BlockQuote(_) => {
                    for x in reg(&mut items, "quote") {
                        add!(x);
                    }
                    quote_depth += 1;
                    add!("quote");
                    if let Some((Event::End(TagEnd::BlockQuote(_)), _)) = evs.get(i + 1) {
                        add!("empty-quote");
                    }
                }
                Tag::CodeBlock(k) => {
                    for x in reg(&mut items, "code") {
                        add!(x);
                    }
                    in_code_block = true;
                    add!("code-block");
                    if quote_depth > 0 {
                        add!("code-in-quote");
                    }
                    match k {
                        CodeBlockKind::Indented => add!("code-indented"),
                        CodeBlockKind::Fenced(info) => {
                            if !info.is_empty() {
                                add!("code-info");
                            }
                            if info.contains(' ') || info.contains('`') || info.contains('\t') {
                                add!("code-info-odd");
                            }
                        }
                    }
                }
                Tag::List(ord) => {
                    for x in reg(&mut items, "list") {
                        add!(x);
                    }
                    add!("list");
                    if let Some(o) = ord {
                        add!("olist");
                        if *o != 1 {
                            add!("olist-start-not-1");
                        }
                    }
                    if i > 0 {
                        if let (Event::End(TagEnd::List(_)), _) = &evs[i - 1] {
                            add!("adjacent-lists");
                        }
                    }
                }
                Tag::Item => {
                    items.push(Item { kinds: vec![] });
                    at_block_start = true;
                }
                Tag::Table(_) => {
                    for x in reg(&mut items, "table") {
                        add!(x);
                    }
                    add!("table");
                    if quote_depth > 0 {
                        add!("table-in-quote");
                    }
                }
                Tag::TableCell => {
                    in_cell = true;
                    at_block_start = true;
                }
                Tag::HtmlBlock => {
                    for x in reg(&mut items, "html") {
                        add!(x);
                    }
                    add!("html-block");
                }
                Tag::MetadataBlock(_) => {
                    add!("front-matter");
                    if range.start > 0 {
                        add!("front-matter-not-at-start");
                    }
                }
                Tag::Link { link_type, dest_url, title, .. } => {
                    add!("link");
                    if let Some(it) = items.last_mut() {
                        if it.kinds.is_empty() {
                            it.kinds.push("text");
                        }
                    }
                    if in_cell {
                        add!("table-cell-contains=link");
                    }
                    if in_heading {
                        add!("heading-contains-link");
                    }
                    match link_type {
                        LinkType::WikiLink { .. } => {
                            add!("wiki-link");
                            if in_cell {
                                add!("table-cell-contains=wiki-link");
                            }
                        }
                        LinkType::Reference
                        | LinkType::Collapsed
                        | LinkType::Shortcut
                        | LinkType::ReferenceUnknown
                        | LinkType::CollapsedUnknown
                        | LinkType::ShortcutUnknown => add!("refdef-link"),
                        LinkType::Autolink | LinkType::Email => add!("autolink"),
                        _ => {}
                    }
                    if !title.is_empty() {
                        add!("link-title-attr");
                    }
                    if dest_url.contains("..") {
                        add!("url-has-dotdot");
                    }
                    if dest_url.chars().any(|c| " ()<>\\".contains(c)) {
                        add!("url-needs-escaping");
                    }
                    if dest_url.is_empty() {
                        add!("url-empty");
                    }
                    if dest_url.ends_with(".md") {
                        add!("url-has-md-ext");
                    }
                    at_block_start = false;
                }
                Tag::Image { .. } => {
                    add!("image");
                    if in_cell {
                        add!("table-cell-contains=image");
                    }
                    at_block_start = false;
                }
                Tag::Emphasis | Tag::Strong | Tag::Strikethrough => {
                    add!("emphasis");
                    // two emphasised runs with nothing between them (`*a*_b_`): written with one marker
                    // style they merge
                    if i > 0 {
                        if let (Event::End(TagEnd::Emphasis), _) | (Event::End(TagEnd::Strong), _) = &evs[i - 1] {
                            add!("adjacent-emphasis");
                        }
                    }
                }
                _ => {}
            },
            Event::End(tag) => match tag {
                TagEnd::Heading(_) => in_heading = false,
                TagEnd::BlockQuote(_) => quote_depth -= 1,
                TagEnd::CodeBlock => in_code_block = false,
                TagEnd::Item => {
                    if let Some(it) = items.pop() {
                        if it.kinds.is_empty() || it.kinds.iter().all(|k| *k == "html") {
                            add!("empty-item");
                        }
                    }
                }
                TagEnd::TableCell => in_cell = false,
                TagEnd::Table => prev_end_table = true,
                _ => {}
            },
            Event::Text(t) => {
                if in_code_block {
                    if t.contains("```") {
                        add!("code-body-contains-fence");
                    }
                    if quote_depth > 0 && t.split('\n').any(|l| l != l.trim_end() || l != l.trim_start()) {
                        add!("quote-code-line-edge-space");
                    }
                    if t.starts_with('\n') || t.ends_with("\n\n") || t.trim().is_empty() {
                        add!("code-body-edge-blank");
                    }
                } else {
                    if let Some(it) = items.last_mut() {
                        if it.kinds.is_empty() {
                            it.kinds.push("text");
                        }
                    }
                    let raw = src.get(range.clone()).unwrap_or("");
                    if raw != t.as_ref() {
                        add!("text-differs-from-source");
                    }
                    let escaped = range.start > 0 && src.as_bytes()[range.start - 1] == b'\\';
                    if escaped {
                        add!("backslash-escape");
                    }
                    if escaped || text_is_active(t, at_block_start) {
                        add!("text-active-char");
                    }
                    if in_cell && t.contains('|') {
                        add!("table-cell-contains=pipe");
                    }
                    at_block_start = false;
                }
            }
            Event::Code(t) => {
                add!("code-span");
                if let Some(it) = items.last_mut() {
                    if it.kinds.is_empty() {
                        it.kinds.push("text");
                    }
                }
                if t.contains('`') {
                    add!("code-span-contains-backtick");
                }
                if t.starts_with(' ') || t.ends_with(' ') || t.is_empty() {
                    add!("code-span-edge-space");
                }
                if in_cell {
                    add!("table-cell-contains=code");
                }
                at_block_start = false;
            }
            Event::SoftBreak => {
                add!("softbreak");
                at_block_start = true;
            }
            Event::HardBreak => {
                add!("hardbreak");
                at_block_start = true;
            }
            Event::InlineHtml(_) => {
                add!("inline-html");
                if at_block_start {
                    add!("inline-html-at-block-start");
                }
                if let Some(it) = items.last_mut() {
                    if it.kinds.is_empty() {
                        it.kinds.push("text");
                    }
                }
                at_block_start = false;
            }
            Event::Html(_) => add!("html-block"),
            Event::InlineMath(_) => {
                add!("inline-math");
                if in_cell {
                    add!("table-cell-contains=math");
                }
                at_block_start = false;
            }
            Event::Rule => {
                for x in reg(&mut items, "rule") {
                    add!(x);
                }
                add!("rule");
            }
            _ => {}
        }
    }
    f.sort();
    f
}
