//! Enumerators of the explored document spaces (DESIGN §3.1–§3.4).

use crate::core::Tier;

// ------------------------------------------------------------------ A: token strings

pub const TOKENS: &[&str] = &[
    "a", "b c", " ", "\n", "\n\n", "# ", "## ", "- ", "* ", "1. ", "1) ", "> ", "  ", "    ", "```\n", "~~~\n", "---\n",
    "===\n", "*", "`", "\\", "|", "|-|\n", "[a](b)", "[[b]]", "<x>", "é", "\r\n",
    // links whose destination names no note: empty, a directory, the root
    "[x]()", "[x](..)", "[x](/)",
];

/// all strings of 0..=l tokens, shortest first
pub fn token_strings(l: usize, emit: &mut dyn FnMut(&str)) {
    emit("");
    let n = TOKENS.len();
    for len in 1..=l {
        let total = n.pow(len as u32);
        let mut s = String::new();
        for code in 0..total {
            s.clear();
            let mut c = code;
            let mut parts = [0usize; 8];
            for k in (0..len).rev() {
                parts[k] = c % n;
                c /= n;
            }
            for k in 0..len {
                s.push_str(TOKENS[parts[k]]);
            }
            emit(&s);
        }
    }
}

// ------------------------------------------------------------------ B: block grammar

#[derive(Clone, Debug, PartialEq)]
pub enum N {
    P,
    P2,
    H(usize),
    HS,
    CF,
    CI,
    R,
    Ref,
    /// block reference with an explicit url (for the action spaces)
    RefUrl(&'static str),
    T,
    Html,
    Fm,
    Q(Vec<N>),
    UL(Vec<Vec<N>>),
    OL(Vec<Vec<N>>),
}

#[derive(Clone, Debug, PartialEq)]
pub struct Style {
    pub loose: bool,
    pub bullet: char,
    pub ord_delim: char,
    pub ord_start: usize,
    pub fence: &'static str,
    pub crlf: bool,
    pub trailing_newline: bool,
    pub ord_pad: usize,
}

impl Style {
    pub fn default() -> Style {
        Style { loose: false, bullet: '-', ord_delim: '.', ord_start: 1, fence: "```", crlf: false, trailing_newline: true, ord_pad: 1 }
    }
    /// default plus every single-factor deviation
    pub fn variants() -> Vec<Style> {
        let d = Style::default();
        vec![
            d.clone(),
            Style { loose: true, ..d.clone() },
            Style { bullet: '*', ..d.clone() },
            Style { bullet: '+', ..d.clone() },
            Style { ord_delim: ')', ..d.clone() },
            Style { ord_start: 3, ..d.clone() },
            Style { fence: "~~~", ..d.clone() },
            Style { crlf: true, ..d.clone() },
            Style { trailing_newline: false, ..d.clone() },
            Style { ord_pad: 2, ..d.clone() },
        ]
    }
}

pub fn size(ns: &[N]) -> usize {
    ns.iter()
        .map(|n| match n {
            N::Q(c) => 1 + size(c),
            N::UL(i) | N::OL(i) => 1 + i.iter().map(|x| size(x)).sum::<usize>(),
            _ => 1,
        })
        .sum()
}

fn leaves_alphabet(rich: bool) -> Vec<N> {
    if rich {
        vec![N::P, N::P2, N::H(1), N::H(2), N::H(3), N::HS, N::CF, N::CI, N::R, N::Ref, N::T, N::Html]
    } else {
        vec![N::P, N::H(1), N::H(2), N::CF, N::R, N::Ref, N::T]
    }
}

/// all forests with at most `budget` nodes and container nesting at most `depth`
pub fn forests(budget: usize, depth: usize, rich: bool) -> Vec<Vec<N>> {
    forests_over(budget, depth, &leaves_alphabet(rich), rich)
}

/// the same over an explicit leaf alphabet (`empty_items`: also lists with an empty item)
pub fn forests_over(budget: usize, depth: usize, leaves: &[N], rich: bool) -> Vec<Vec<N>> {
    let mut res: Vec<Vec<N>> = vec![vec![]];
    if budget == 0 {
        return res;
    }
    let mut firsts: Vec<(N, usize)> = leaves.iter().cloned().map(|n| (n, 1)).collect();
    if depth > 0 {
        for b in 1..budget {
            for ch in forests_over(b, depth - 1, leaves, rich) {
                if ch.is_empty() {
                    continue;
                }
                let sz = 1 + size(&ch);
                firsts.push((N::Q(ch.clone()), sz));
                firsts.push((N::UL(vec![ch.clone()]), sz));
                firsts.push((N::OL(vec![ch.clone()]), sz));
                for cut in 1..ch.len() {
                    firsts.push((N::UL(vec![ch[..cut].to_vec(), ch[cut..].to_vec()]), sz));
                    firsts.push((N::OL(vec![ch[..cut].to_vec(), ch[cut..].to_vec()]), sz));
                }
                if rich {
                    // a trailing / leading empty item
                    firsts.push((N::UL(vec![ch.clone(), vec![]]), sz));
                    firsts.push((N::UL(vec![vec![], ch.clone()]), sz));
                }
            }
        }
    }
    for (f, sz) in firsts {
        if sz > budget {
            continue;
        }
        for rest in forests_over(budget - sz, depth, leaves, rich) {
            let mut v = vec![f.clone()];
            v.extend(rest);
            res.push(v);
        }
    }
    res
}

fn render_blocks(ns: &[N], st: &Style, ctr: &mut usize, out: &mut Vec<String>) {
    for n in ns {
        *ctr += 1;
        let i = *ctr;
        match n {
            N::P => out.push(format!("para{}", i)),
            N::P2 => out.push(format!("para{} one\ntwo{}", i, i)),
            N::H(l) => out.push(format!("{} head{}", "#".repeat(*l), i)),
            N::HS => out.push(format!("head{}\n=====", i)),
            N::CF => out.push(format!("{} rs\ncode{}\n{}", st.fence, i, st.fence)),
            N::CI => out.push(format!("    code{}", i)),
            N::R => out.push("---".into()),
            N::Ref => out.push("[two](2)".into()),
            N::RefUrl(u) => out.push(format!("[r]({})", u)),
            N::T => out.push(format!("| a{} | b |\n|---|---|\n| c | d |", i)),
            N::Html => out.push(format!("<div>html{}</div>", i)),
            N::Fm => out.push(format!("---\ntitle: t{}\n---", i)),
            N::Q(c) => {
                let mut v = vec![];
                render_blocks(c, st, ctr, &mut v);
                out.push(
                    v.join("\n\n")
                        .lines()
                        .map(|l| if l.is_empty() { ">".to_string() } else { format!("> {}", l) })
                        .collect::<Vec<_>>()
                        .join("\n"),
                );
            }
            N::UL(items) | N::OL(items) => {
                let ordered = matches!(n, N::OL(_));
                let mut rendered_items = vec![];
                for (k, it) in items.iter().enumerate() {
                    let mut v = vec![];
                    render_blocks(it, st, ctr, &mut v);
                    let body = v.join("\n\n");
                    let marker = if ordered {
                        format!("{}{}{}", k + st.ord_start, st.ord_delim, " ".repeat(st.ord_pad))
                    } else {
                        format!("{} ", st.bullet)
                    };
                    let pad = " ".repeat(marker.len());
                    let mut lines = vec![];
                    for (j, l) in body.lines().enumerate() {
                        if j == 0 {
                            lines.push(format!("{}{}", marker, l));
                        } else if l.is_empty() {
                            lines.push(String::new());
                        } else {
                            lines.push(format!("{}{}", pad, l));
                        }
                    }
                    if body.is_empty() {
                        lines.push(marker.trim_end().to_string());
                    }
                    rendered_items.push(lines.join("\n"));
                }
                out.push(rendered_items.join(if st.loose { "\n\n" } else { "\n" }));
            }
        }
    }
}

pub fn render(ns: &[N], st: &Style) -> String {
    let mut parts = vec![];
    let mut ctr = 0;
    render_blocks(ns, st, &mut ctr, &mut parts);
    let mut s = parts.join("\n\n");
    if st.trailing_newline {
        s.push('\n');
    }
    if st.crlf {
        s = s.replace('\n', "\r\n");
    }
    s
}

/// block-grammar documents: forests ≤ n nodes in default style, plus style variants for forests ≤ nv nodes,
/// plus front-matter in first position for forests ≤ nv nodes
pub fn block_docs(n: usize, nv: usize, depth: usize, rich: bool, emit: &mut dyn FnMut(&str)) {
    let d = Style::default();
    for f in forests(n, depth, rich) {
        if f.is_empty() {
            continue;
        }
        emit(&render(&f, &d));
        if size(&f) <= nv {
            for st in Style::variants().iter().skip(1) {
                emit(&render(&f, st));
            }
            let mut g = vec![N::Fm];
            g.extend(f.clone());
            emit(&render(&g, &d));
        }
    }
}

// ------------------------------------------------------------------ C: inline grammar

pub const ATOMS: &[&str] = &[
    "w",
    "é",
    "😀",
    "*w*",
    "**w**",
    "`c`",
    "``c`d``",
    "[w](k)",
    "[](k)",
    "[w](k.md)",
    "[w](http://x)",
    "<http://x>",
    "[[k]]",
    "[[k|w]]",
    "![w](i.png)",
    "[w](k \"t\")",
    "[w][r]",
    "\n",
    "\\\n",
    "  \n",
    "\\*",
    "\\#",
    "\\[",
    "<b>",
    "$m$",
    "&amp;",
    "~~w~~",
    "1\\.",
    "\\-",
    "\\>",
    "#",
    "-",
    "|",
    "_w_",
    // a line break inside a span (matters when the span opens the block)
    "*w\nv*",
    "**w\nv**",
    "[w\nv](k)",
    // a link whose text is its url
    "[k](k)",
    "[2](2)",
    // link texts that open or close with markup (external links keep their text)
    "[`c` w](http://x)",
    "[**w** v](http://x)",
    "[w `c`](http://x)",
    "[*w*](k)",
    // schemes are case-insensitive
    "[w](HTTPS://X.y/z)",
    "<Mailto:a@b.c>",
];

pub const HOSTS: &[&str] = &["para", "heading", "item", "nested-item", "quote", "cell"];

pub fn host_wrap(host: &str, inline: &str) -> String {
    let needs_def = inline.contains("[w][r]");
    let body = match host {
        "para" => format!("{}\n", inline),
        "heading" => format!("# {}\n", inline.replace('\n', " ")),
        "item" => format!("- {}\n", inline.replace('\n', "\n  ")),
        "nested-item" => format!("- x\n  - {}\n", inline.replace('\n', "\n    ")),
        "quote" => format!("> {}\n", inline.replace('\n', "\n> ")),
        "cell" => format!("| h | i |\n|---|---|\n| {} | z |\n", inline.replace('\n', " ")),
        _ => unreachable!(),
    };
    if needs_def {
        format!("{}\n[r]: k\n", body)
    } else {
        body
    }
}

/// all sequences of 1..=k atoms (joined by a space; for length 2 also glued) in every host
pub fn inline_docs(k: usize, glued: bool, emit: &mut dyn FnMut(&str)) {
    let n = ATOMS.len();
    for len in 1..=k {
        let total = n.pow(len as u32);
        for code in 0..total {
            let mut c = code;
            let mut parts = vec![];
            for _ in 0..len {
                parts.push(ATOMS[c % n]);
                c /= n;
            }
            parts.reverse();
            let joined = parts.join(" ");
            for h in HOSTS {
                emit(&host_wrap(h, &joined));
            }
            if glued && len == 2 {
                let g = parts.join("");
                for h in HOSTS {
                    emit(&host_wrap(h, &g));
                }
            }
        }
    }
}

// ------------------------------------------------------------------ heading level sequences (C07)

pub fn heading_sequences(max_len: usize, emit: &mut dyn FnMut(&str)) {
    for len in 1..=max_len {
        let total = 6usize.pow(len as u32);
        for code in 0..total {
            let mut c = code;
            let mut levels = vec![];
            for _ in 0..len {
                levels.push(c % 6 + 1);
                c /= 6;
            }
            for with_body in [false, true] {
                for setext in [false, true] {
                    if setext && levels.iter().any(|l| *l > 2) {
                        continue;
                    }
                    let mut s = String::new();
                    for (i, l) in levels.iter().enumerate() {
                        if setext {
                            s.push_str(&format!("h{}\n{}\n\n", i, if *l == 1 { "===" } else { "---" }));
                        } else {
                            s.push_str(&format!("{} h{}\n\n", "#".repeat(*l), i));
                        }
                        if with_body {
                            s.push_str(&format!("body{}\n\n", i));
                        }
                    }
                    emit(&s);
                }
            }
        }
    }
}

// ------------------------------------------------------------------ D: scale families

pub fn scale_doc(family: &str, n: usize) -> String {
    match family {
        "paragraphs" => (0..n).map(|i| format!("p{}\n\n", i)).collect(),
        "items" => (0..n).map(|i| format!("- i{}\n", i)).collect(),
        "ordered-items" => (0..n).map(|i| format!("{}. i{}\n", i + 1, i)).collect(),
        "headings" => (0..n).map(|i| format!("# h{}\n\n", i)).collect(),
        "nested-headings" => (0..n).map(|i| format!("{} h{}\n\n", "#".repeat((i % 6) + 1), i)).collect(),
        "table-rows" => format!("| a |\n|---|\n{}", (0..n).map(|i| format!("| r{} |\n", i)).collect::<String>()),
        "links" => format!("{}\n", (0..n).map(|i| format!("[l{}](k{}) ", i, i)).collect::<String>()),
        "refs" => (0..n).map(|i| format!("[l{}](2)\n\n", i)).collect(),
        "nested-quotes" => format!("{}q\n", "> ".repeat(n)),
        "nested-lists" => (0..n).map(|i| format!("{}- i{}\n", "  ".repeat(i), i)).collect(),
        "nested-emphasis" => format!("{}w{}\n", "*".repeat(n), "*".repeat(n)),
        "long-line" => format!("{}\n", "x".repeat(n)),
        "long-words" => format!("{}\n", "w ".repeat(n)),
        "rules" => (0..n).map(|_| "---\n\n".to_string()).collect(),
        "code-blocks" => (0..n).map(|i| format!("```\nc{}\n```\n\n", i)).collect(),
        _ => unreachable!("family {}", family),
    }
}

/// ordered lists of n items around the marker-width thresholds (9/10, 99/100, 999/1000): single-line
/// items and items with correctly indented further content (nested list, second paragraph, code)
pub fn ordered_list_docs(ns: &[usize], emit: &mut dyn FnMut(&str)) {
    for n in ns {
        emit(&scale_doc("ordered-items", *n));
        for variant in ["nested", "second-para", "code"] {
            let mut s = String::new();
            for i in 0..*n {
                let marker = format!("{}. ", i + 1);
                let ind = " ".repeat(marker.len());
                match variant {
                    "nested" => s.push_str(&format!("{}i{}\n{}- sub{}\n", marker, i, ind, i)),
                    "second-para" => s.push_str(&format!("{}i{}\n\n{}second{}\n\n", marker, i, ind, i)),
                    _ => s.push_str(&format!("{}i{}\n\n{}```\n{}code{}\n{}```\n\n", marker, i, ind, ind, i, ind)),
                }
            }
            emit(&s);
        }
    }
}

/// containers with 1..=5 blocks inside and 0..=2 blocks behind them: the exhaustive forests stop at
/// a handful of nodes, so "one container with many children" is its own family. Containers: quote,
/// bullet item, ordered item, nested item, an item that starts with a list (merged into it, with
/// the blocks in the last inner item and the tail inside the outer item), quote in an item, item in
/// a quote. Children are paragraphs; variant k replaces the k-th child by a code block, a heading
/// or a nested quote.
pub fn wide_container_docs(emit: &mut dyn FnMut(&str)) {
    // (prefix of the first line, prefix of continuation lines, prefix for the tail blocks)
    let containers: &[(&str, &str, &str, &str)] = &[
        ("quote", "> ", "> ", ""),
        ("item", "- ", "  ", ""),
        ("ordered-item", "1. ", "   ", ""),
        ("nested-item", "- outer\n  - ", "    ", "  "),
        ("merged-item", "- - ", "    ", "  "),
        ("merged-ordered", "1. 1. ", "      ", "   "),
        ("quote-in-item", "- lead\n\n  > ", "  > ", "  "),
        ("item-in-quote", "> - ", ">   ", "> "),
    ];
    for (_, first, cont, tail_prefix) in containers {
        for n in 1..=5usize {
            for variant in ["plain", "code", "heading", "quote", "heading-first", "code-first", "quote-first"] {
                for tail in 0..=2usize {
                  for tight in [false, true] {
                    if variant != "plain" && n < 2 {
                        continue;
                    }
                    // tight: no blank lines between the children (text directly under a heading or a
                    // code block of a tight item is a block of its own; paragraphs join)
                    if tight && (n < 2 || tail > 0) {
                        continue;
                    }
                    let mut s = String::new();
                    for i in 0..n {
                        let lead = if i == 0 { first.to_string() } else { cont.to_string() };
                        let blank = cont.trim_end().to_string();
                        let special = (variant == "code" || variant == "heading" || variant == "quote") && i == 1 || (variant == "heading-first" || variant == "code-first" || variant == "quote-first") && i == 0;
                        let variant = variant.trim_end_matches("-first");
                        if i > 0 && !tight {
                            s.push_str(&format!("{}\n", blank));
                        }
                        if special && variant == "code" {
                            s.push_str(&format!("{}```\n{}code{}\n{}```\n", lead, cont, i, cont));
                        } else if special && variant == "heading" {
                            s.push_str(&format!("{}## head{}\n", lead, i));
                        } else if special && variant == "quote" {
                            s.push_str(&format!("{}> quoted{}\n", lead, i));
                        } else {
                            s.push_str(&format!("{}child{}\n", lead, i));
                        }
                    }
                    for t in 0..tail {
                        let blank = tail_prefix.trim_end().to_string();
                        s.push_str(&format!("{}\n{}tail{}\n", blank, tail_prefix, t));
                    }
                    emit(&s);
                  }
                }
            }
        }
    }
}

/// runs of 2..=4 adjacent blocks of the same kind (the forests stop before three lists in a row):
/// bullet lists with alternating source markers, ordered lists with alternating delimiters, quotes,
/// code blocks, rules, tables, headings of one level - at the top, inside a list item and inside a
/// quote; for lists also with items whose first block is a rule, a code block or a heading
pub fn sibling_run_docs(emit: &mut dyn FnMut(&str)) {
    let kinds = ["bullets", "ordered", "quotes", "codes", "rules", "tables", "headings", "bullets-rule-first", "bullets-code-first", "bullets-heading-first", "ordered-rule-first"];
    for kind in kinds {
        for n in 2..=4usize {
            for two_items in [false, true] {
                if two_items && !(kind.starts_with("bullets") || kind.starts_with("ordered")) {
                    continue;
                }
                let mut blocks: Vec<String> = vec![];
                for i in 0..n {
                    let bullet = ["-", "*", "+"][i % 3];
                    let delim = [".", ")"][i % 2];
                    let second = |m: &str, pad: &str| if two_items { format!("{} second{}\n", m, i) + pad } else { String::new() };
                    let b = match kind {
                        "bullets" => format!("{} item{}\n{}", bullet, i, second(bullet, "")),
                        "ordered" => format!("1{} item{}\n{}", delim, i, second(&format!("2{}", delim), "")),
                        "quotes" => format!("> quote{}\n", i),
                        "codes" => format!("```\ncode{}\n```\n", i),
                        "rules" => "---\n".to_string(),
                        "tables" => format!("| h{} |\n|---|\n| c{} |\n", i, i),
                        "headings" => format!("## head{}\n", i),
                        "bullets-rule-first" => format!("{} ---\n{}", if bullet == "-" { "*" } else { bullet }, second(bullet, "")),
                        "bullets-code-first" => format!("{} ```\n  code{}\n  ```\n{}", bullet, i, second(bullet, "")),
                        "bullets-heading-first" => format!("{} # head{}\n{}", bullet, i, second(bullet, "")),
                        _ => format!("1{} ---\n{}", delim, second(&format!("2{}", delim), "")),
                    };
                    blocks.push(b);
                }
                // quotes, rules, lists of one marker would merge in the source: separate where needed
                let sep = match kind {
                    "quotes" => "\n<!-- -->\n\n",
                    _ => "\n",
                };
                let top = blocks.join(sep);
                emit(&top);
                // inside a list item (indented by 2) and inside a quote
                let indent = |t: &str, first: &str, cont: &str| -> String {
                    t.lines().enumerate().map(|(i, l)| if l.is_empty() { format!("{}\n", cont.trim_end()) } else { format!("{}{}\n", if i == 0 { first } else { cont }, l) }).collect()
                };
                emit(&format!("- lead\n\n{}", indent(&top, "  ", "  ")));
                emit(&indent(&top, "> ", "> "));
            }
        }
    }
}

/// link destinations over every alignment of multi-byte characters within the first 16 bytes
/// (0..=3 ASCII characters, then 1..=6 two-, three- or four-byte characters), as an inline link,
/// a link alone in its paragraph, a wiki-link and a piped wiki-link
pub fn destination_docs(emit: &mut dyn FnMut(&str)) {
    for prefix in ["", "a", "ab", "abc"] {
        for ch in ["é", "日", "😀", "я"] {
            for k in 1..=6usize {
                let d = format!("{}{}", prefix, ch.repeat(k));
                emit(&format!("see [x]({}) here\n", d));
                emit(&format!("[x]({})\n", d));
                emit(&format!("[[{}]]\n", d));
                emit(&format!("- [[{}|t]]\n", d));
            }
        }
    }
    // a directory part, an extension, a fragment
    for d in ["dir/éé", "éé/x", "ééé.md", "x#éé", "ééé#x", "é é", "%C3%A9"] {
        emit(&format!("see [x]({}) here\n\n[x]({})\n", d, d));
    }
}

/// link reference definitions (a construct none of the other families has) in every container,
/// followed by nothing, a newline, or a last line of only whitespace (with / without a newline)
pub fn refdef_docs(emit: &mut dyn FnMut(&str)) {
    let containers = ["", "> ", "- ", "1. ", ">- ", "> - ", ">1. ", "> 1. ", "- - ", "- > ", ">> ", "1. > "];
    let defs = ["[x]:y", "[x]: y", "[x]: <y>", "[x]:y 't'", "[x]: y \"t\""];
    let endings = ["", "\n", "\n\t", "\n    ", "\n\t\n", "\n \n", "\n\nsee [x]\n", "\ntext\n"];
    for c in containers {
        for d in defs {
            for e in endings {
                emit(&format!("{}{}{}", c, d, e));
                emit(&format!("text\n\n{}{}{}", c, d, e));
            }
        }
    }
}

/// items that start with text-less nested lists (1..=3 levels of markers without any text, also an
/// empty quote inside), continue with text, are followed by 0..=2 more items and by 0..=1 block
pub fn blank_nested_docs(emit: &mut dyn FnMut(&str)) {
    let starts = ["- -", "- - +", "- - - *", "1. -", "1. - +", "- 1.", "- - >", "- >", "- > -", "> - - +"];
    for st in starts {
        for cont in ["", "\n  text\n", "\n\n  text\n", "\n  ```\n  code\n  ```\n"] {
            for more in 0..=2usize {
                for after in ["", "\npara\n", "\n## head\n"] {
                    let marker = if st.starts_with("1.") { "2. " } else if st.starts_with('>') { "> - " } else { "- " };
                    let mut s = format!("{}{}", st, if cont.is_empty() { "\n" } else { cont });
                    if st.starts_with('>') {
                        // continuation lines of a quoted list need the quote marker
                        s = s.replace("\n  ", "\n>   ");
                    }
                    for m in 0..more {
                        s.push_str(&format!("{}item{}\n", marker, m));
                    }
                    s.push_str(after);
                    emit(&s);
                }
            }
        }
    }
}

pub const SCALE_FAMILIES: &[&str] = &[
    "paragraphs", "items", "ordered-items", "headings", "nested-headings", "table-rows", "links", "refs", "nested-quotes",
    "nested-lists", "nested-emphasis", "long-line", "long-words", "rules", "code-blocks",
];

pub fn doc_space(tier: Tier, emit: &mut dyn FnMut(&str)) {
    match tier {
        Tier::Quick => {
            token_strings(3, emit);
            block_docs(3, 2, 2, true, emit);
            inline_docs(1, false, emit);
            wide_container_docs(emit);
            sibling_run_docs(emit);
            destination_docs(emit);
            refdef_docs(emit);
            blank_nested_docs(emit);
        }
        Tier::Thorough => {
            token_strings(4, emit);
            block_docs(4, 3, 3, true, emit);
            inline_docs(2, true, emit);
            wide_container_docs(emit);
            sibling_run_docs(emit);
            destination_docs(emit);
            refdef_docs(emit);
            blank_nested_docs(emit);
        }
    }
}
